"""C16 - IP set sync converges and never breaks rules that use a set (felix/ipsets.IPSets over the package's
own mock dataplane, in-package overlay driver)."""
import copy

from vlib import core, pipeline


def signature(t_id, events, off, reason):
    e = events[off]
    if e.get("ev") == "deletions_end" and not e.get("resched"):
        # a stray temp set left although nothing is pending and no failure concerned it
        k = None
        for x in reversed(events[:off]):
            if "kernel" in x:
                k = x["kernel"]
                break
        if k and any(n.startswith("cali4t") for n in k):
            return "ipsets:stray-temp-set-after-deletions"
    return "ipsets:%s:%s:%s" % (reason, e.get("ev"), e.get("kind", e.get("ok", "")))


def nontrivial(evs):
    # the antecedent is exercised when a set that rules reference is rewritten (command on a referenced
    # set), a temp-set swap happens, a command fails, or an out-of-band edit is repaired
    refs = set()
    hit = False
    for e in evs:
        if e["ev"] == "tables":
            refs = set(e["refs"])
        if e["ev"] == "cmd":
            if e["kind"] == "swap" or not e["ok"] or e.get("set") in refs:
                hit = True
        if e["ev"] == "edit":
            hit = True
    return hit


P = {
    "specdir": "reconcile_ipsets",
    "design": [{"module": "I_RIPSets", "cfg": "MC_quick.cfg", "thorough_cfg": "MC_thorough.cfg", "workers": 4,
                "heap": "4g", "timeout": 400, "thorough_timeout": 1700,
                # single-member add/remove by the caller is only enabled in the thorough config
                "allow_zero": ("IAdd", "IDel")}],
    "gen": {"module": "Gen_RIPSets", "cfg": "Gen_cover.cfg", "thorough_cfg": "Gen_cover4.cfg", "workers": 1,
            "max": 250, "thorough_max": 5000, "timeout": 400, "thorough_timeout": 1500},
    "driver": {"overlay_pkg": "felix/ipsets", "run": "^TestVerifC16$", "timeout": 1500},
    "n_random": (150, 2000),
    "trace": {"module": "T_RIPSets", "cfg": "T_RIPSets.cfg", "timeout": 900, "heap": "4g", "rerun_attempts": 3},
    "chunk": 60000,
    "signature": signature,
    "nontrivial": nontrivial,
    "rule": "behaviours = one per transition of the generator's (kernel, desired, refs) graph (depth-bounded, thinned "
            "by seed) and TLC -simulate walks over 2 set ids, plus seeded random histories over 4 set ids / 2 types / 2 "
            "maxelem values with stale temp sets, stale main sets, foreign sets, every failure point of the mock "
            "(restore: pipe/write/write-ip/close/start/pre-update/post-del/post-update/all; list: pipe/read/close/start/rc; "
            "destroy), out-of-band edits before the k-th kernel command, QueueResync and restarts; every trace ends "
            "with QueueResync + fault-free rounds until nothing is pending + Final; a trace is non-trivial if a "
            "referenced set was written, a swap happened, a command failed or an edit was made; distinct = distinct "
            "event sequences",
    "assumptions": [
        "the kernel is the package's mock dataplane (utils_for_test.go); `ipset restore` lines are fed to it one at a "
        "time so that the kernel content is observed after every line",
        "the order ApplyUpdates -> tables -> ApplyDeletions of int_dataplane.apply() is executed by the driver (the "
        "spec's round); int_dataplane.go itself is not executed",
        "rules reference only sets the caller asked for, and are updated (tables) before the caller's removals are "
        "applied (ApplyDeletions)",
        "a set id never changes its type (the kernel cannot swap sets of different types); parameters = maxelem",
        "in-place member updates of a live set may pass through subsets/supersets (ipset restore is not atomic): "
        "demanded is only that desired members are never removed and undesired ones never added; full old-or-new "
        "atomicity is demanded where the code promises it (parameter change: temp set + swap)",
        "a failed ApplyUpdates (panic) is followed by a new IPSets object (Felix exits on it)",
    ],
    "exhaustive": False,
}


def run(ctx):
    # one driver run (the overlay test binary is compiled once) and one validation for both TLC generators
    sim_behs = []
    if not ctx.replay:
        sim = {"num": 60, "depth": 18} if ctx.quick else {"num": 1000, "depth": 18}
        r = core.tlc(P["specdir"], "Gen_RIPSets", "Gen_sim.cfg", workers=1, simulate=sim, seed=ctx.seed,
                     timeout=400 if ctx.quick else 1500, heap="4g")
        if r.violated and r.violated != "deadlock":
            raise core.HarnessError("generator spec problem (simulate): %s\n%s" % (r.violated, r.out[-2000:]))
        sim_behs = r.behaviours
        ctx.notes["simulate_behaviours_from_tlc"] = len(sim_behs)
    ncover = 250 if ctx.quick else 2500

    def sel(behs, rnd):
        keep = behs if len(behs) <= ncover else rnd.sample(behs, ncover)
        ctx.notes["cover_behaviours_selected"] = len(keep)
        return keep + sim_behs

    Pq = dict(P)
    Pq["gen"] = dict(P["gen"], select=sel, max=None, thorough_max=None)
    pipeline.standard_check(ctx, Pq)


def selftest(ctx):
    def touch_foreign(evs):
        for e in evs:
            if e["ev"] == "cmd" and e["ok"]:
                for n, s in e["kernel"].items():
                    if not n.startswith(("cali4", "felix-4")):
                        s["members"] = sorted(set(s["members"]) ^ {"10.9.9.9"})
                        return evs

    def destroy_desired(evs):
        # a successful destroy line is re-labelled as a destroy of a set that is desired at that moment
        desired = set()
        for i, e in enumerate(evs):
            if e["ev"] == "reset":
                desired = set()
            if e["ev"] == "set":
                desired.add("cali40" + e["id"])
            if e["ev"] == "remove":
                desired.discard("cali40" + e["id"])
            if e["ev"] == "restart":
                desired = set()
            if e["ev"] == "cmd" and e["kind"] == "destroy" and e["ok"] and desired:
                n = sorted(desired)[0]
                if n in e["kernel"]:
                    e["set"] = n
                    return evs

    def empty_before_fill(evs):
        # a referenced, desired set loses a desired member in the middle of a restore session
        refs = set()
        for i, e in enumerate(evs):
            if e["ev"] == "reset":
                refs = set()
            if e["ev"] == "tables":
                refs = set(e["refs"])
            if e["ev"] == "cmd" and e["ok"] and e["kind"] in ("add", "del"):
                for n in sorted(refs):
                    s = e["kernel"].get(n)
                    if s and s["members"] and n != e["set"]:
                        # only if the member is still desired afterwards: use the last kernel of the trace as proxy
                        last = None
                        for x in evs[i:]:
                            if x["t"] != e["t"]:
                                break
                            if "kernel" in x:
                                last = x["kernel"]
                        if last and n in last and s["members"][0] in last[n]["members"]:
                            s["members"] = s["members"][1:]
                            return evs

    def wrong_member_at_end(evs):
        # the kernel after the last command of a successful ApplyUpdates misses a member
        for i, e in enumerate(evs):
            if e["ev"] == "updates_end" and e["ok"]:
                j = i - 1
                while j > 0 and evs[j]["ev"] not in ("cmd", "updates_begin"):
                    j -= 1
                if evs[j]["ev"] == "cmd" and evs[j]["ok"] and evs[j]["kind"] == "commit":
                    for n, s in sorted(evs[j]["kernel"].items()):
                        if n.startswith("cali40") and s["members"] and evs[j - 1]["ev"] == "cmd" and evs[j - 1].get("set") == n:
                            s["members"] = s["members"][1:]
                            return evs

    def stray_not_deleted(evs):
        # Final claims completion while a stale Felix set is still there
        for i, e in enumerate(evs):
            if e["ev"] == "final":
                j = i - 1
                while j > 0 and "kernel" not in evs[j]:
                    j -= 1
                if evs[j]["ev"] != "cmd":
                    continue
                evs[j]["kernel"]["cali40zz"] = {"type": "hash:ip", "max": 1234, "members": []}
                return evs

    def params_not_replaced(evs):
        # after a temp-set swap the main set still shows the old maxelem
        for i, e in enumerate(evs):
            if e["ev"] == "cmd" and e["kind"] == "swap" and e["ok"]:
                n = e["set"]
                j = i
                while j < len(evs) and evs[j]["t"] == e["t"] and evs[j]["ev"] == "cmd":
                    j += 1
                if j < len(evs) and evs[j]["ev"] == "updates_end" and evs[j]["ok"] and n in evs[j - 1]["kernel"]:
                    for x in evs[i:j]:
                        if n in x["kernel"]:
                            x["kernel"][n]["max"] = 4321
                    return evs

    def deep(fn):
        return lambda evs: fn(copy.deepcopy(evs))

    return pipeline.corruption_selftest(ctx, P, [(n, deep(f)) for n, f in [
        ("touch_foreign", touch_foreign), ("destroy_desired", destroy_desired),
        ("empty_before_fill", empty_before_fill), ("wrong_member_at_end", wrong_member_at_end),
        ("stray_not_deleted", stray_not_deleted), ("params_not_replaced", params_not_replaced)]], n_random=60)


MANIFEST = dict(
    text="Property spec RIPSets (kernel sets incl. foreign and stale temp sets, desired sets, rule references, "
         "belief) with per-kernel-command preconditions: foreign sets untouched, no destroy of a desired or referenced "
         "set, a referenced desired set only moves towards its desired content and a parameter change installs the "
         "complete new content (temp-set-and-swap); exact convergence after ApplyUpdates+ApplyDeletions and after a "
         "drained resync. I_RIPSets (one action per ipset-restore line, temp set + swap, deletions after tables, resync "
         "after failures) is checked exhaustively by TLC against these preconditions under out-of-band edits and "
         "command failures. TLC-generated and seeded random histories are replayed on the real ipsets.IPSets over the "
         "package's mock dataplane (in-package overlay driver feeding the mock one restore line at a time); every "
         "kernel command with the whole mock kernel after it is validated by TLC against RIPSets.",
    design_ref="3.5 C16",
    technique="TLA+ property spec (RIPSets) + implementation-shaped spec (I_RIPSets) checked exhaustively with TLC; "
              "TLC-generated behaviours (cover + simulate) replayed on real code via go test -overlay; trace "
              "validation with TLC",
)
