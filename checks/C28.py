"""C28 - exactly one of Felix and BIRD programs each IP pool's cluster routes (felix/config, felix/calc,
felix/dataplane/linux ipipManager, confd bgp_processor).  Three legs: static cases on confd + Felix config/calc, static cases on
the dataplane manager, and a dynamic leg (DynRoutes.tla) over histories of pool / BGPConfiguration updates and renders."""
import copy

from vlib import core, pipeline
from vlib.core import HarnessError

_VALUES = ("Disabled", "Enabled", "EnabledIPIPOnly", "EnabledNoEncapOnly")
_SUPPORTED = {("EnabledIPIPOnly", "EnabledNoEncapOnly"), ("Enabled", "Disabled"), ("Disabled", "Enabled"),
              ("EnabledNoEncapOnly", "EnabledIPIPOnly")}


def _supported(r):
    # evidence counting only (the judgement is ClusterRoutes!Holds in TLA+)
    f = r["felix"] if r["felix"] in _VALUES else "EnabledIPIPOnly"
    b = r["bgp"] if r["bgp"] in _VALUES else "EnabledNoEncapOnly"
    return (f, b) in _SUPPORTED


def signature(t_id, events, off, reason):
    r = events[0]
    return "%s:felix=%s,bgp=%s,encap=%s,ipv%s" % (events[off].get("ev"), r.get("felix"), r.get("bgp"), r.get("encap"), r.get("ipv"))


def nontrivial(evs):
    kinds = {e["ev"] for e in evs}
    return ("verdict" in kinds and _supported(evs[0])) or "verdict_felix" in kinds


P = {
    "specdir": "clusterroutes",
    "design": [{"module": "ClusterRoutes", "cfg": "MC_ClusterRoutes.cfg", "workers": 1, "allow_zero": ("Next",)}],
    "gen": {"module": "Gen_ClusterRoutes", "cfg": "Gen_ClusterRoutes.cfg", "workers": 1},
    "driver": {"overlay_pkg": "confd/pkg/backends/calico", "run": "^TestVerifC28$", "timeout": 2400},
    "n_random": (40, 2000),
    "trace": {"module": "T_ClusterRoutes", "cfg": "T_ClusterRoutes.cfg"},
    "signature": signature,
    "nontrivial": nontrivial,
    "rule": "one trace = one (Felix setting, BGP setting, pool encapsulation, IP version) case: all 6x6 pairings x 5 encapsulation "
            "modes for IPv4 pools and x 3 for IPv6 pools from TLC (288), plus seeded random cases with other CIDRs; the real Felix side "
            "(felix/config UpdateFrom + accessors, felix/calc EncapsulationCalculator + calculation graph emitting the remote block's "
            "route) and the real confd side (processIPPools rendering BIRD's kernel-programming filter) are recorded and "
            "ClusterRoutes!Holds is judged; second pass: a real ipipManager per Felix setting x IPIP mode must write the remote "
            "block's route iff the setting assigns IPIP to Felix; non-trivial = the pairing is a supported one (the property's "
            "antecedent) or a dataplane-manager case",
    "assumptions": ["bird_ipam.cfg.template renders KernelFilterForIPPools in order and ends calico_kernel_programming with `accept;`",
                    "Felix 'programs' a pool = its calculation graph emits the remote block's route and the switch the dataplane "
                    "consumes for the pool's class is on; the creation gate of noEncapManager inside NewIntDataplaneDriver "
                    "(ProgramNoEncapClusterRoutes && NoEncapNeeded) is not executed (it needs a real kernel dataplane)"],
    "exhaustive": True,
}


# ---- dynamic leg: histories of updates and renders (DynRoutes.tla) ------------------------------------------------
_UPDATES = ("pool_set", "pool_del", "bgp")


def dyn_signature(t_id, events, off, reason):
    r = events[0]
    bgp = r.get("bgp")
    for e in events[:off]:
        if e.get("ev") == "bgp":
            bgp = e.get("v")
    return "dyn:%s:felix=%s,bgp=%s,insync=%s" % (events[off].get("ev"), r.get("felix"), bgp,
                                                 any(e.get("ev") == "insync" for e in events[:off]))


def dyn_nontrivial(evs):
    # the history contains an update after the first render call or after in-sync, and is judged afterwards
    seen = False
    upd_after = False
    for e in evs:
        if e["ev"] in ("render", "render_start", "insync"):
            seen = True
        elif e["ev"] in _UPDATES and seen:
            upd_after = True
        elif e["ev"] == "quiesce" and upd_after:
            return True
    return False


DYN_RULE = ("; dynamic leg: one trace = one history (TLC random walks of DynRoutes: 9 actions over 3 pools x 5 encapsulation modes x "
            "6 BGP values, Felix setting fixed per history; plus seeded longer histories over 4 pools) of pool add/change/delete, "
            "BGPConfiguration updates, Felix in-sync and renders whose start and finish are separate steps (updates land mid-render "
            "through a log hook inside processIPPools), replayed on a real confd client (onUpdates, GetBirdBGPConfig) and a real Felix "
            "calculation graph; at every quiescent point (render issued after the last update) TLC judges ClusterRoutes!Holds and the "
            "one-sided ownership for the CURRENT setting and pools from the statements BIRD holds and the last Encapsulation message; "
            "non-trivial = an update after the first render or after in-sync, judged afterwards. The dynamic leg is sampled, not exhaustive")

P3 = {
    "specdir": "clusterroutes",
    "design": [{"module": "DynRoutes", "cfg": "MC_DynRoutes.cfg", "thorough_cfg": "MC_DynRoutes_thorough.cfg", "workers": 4,
                "timeout": 500, "thorough_timeout": 1200, "heap": "4g"}],
    "gen": {"module": "Gen_DynRoutes", "cfg": "Gen_DynRoutes.cfg", "simulate": {"num": 300, "depth": 60},
            "thorough_simulate": {"num": 6000, "depth": 60}, "timeout": 500, "thorough_timeout": 1200},
    "driver": {"overlay_pkg": "confd/pkg/backends/calico", "run": "^TestVerifC28Dyn$", "timeout": 2400},
    "n_random": (40, 1500),
    "trace": {"module": "T_DynRoutes", "cfg": "T_DynRoutes.cfg"},
    "signature": dyn_signature,
    "nontrivial": dyn_nontrivial,
    "rule": P["rule"] + DYN_RULE,
    "assumptions": ["dynamic leg: Felix 'programs' a pool's class iff the last Encapsulation message after in-sync has the class's flag "
                    "(daemon.go restarts Felix with exactly these flags) and the config accessor for the class is on; the mid-render "
                    "point is the debug line of processIPPools (policy read, pools not yet read), where the real code holds no lock",
                    "dynamic leg: IPv4 pools only; Felix's own setting does not change within a history (a change restarts Felix)"],
    "exhaustive": False,
}


def run(ctx):
    pipeline.standard_check(ctx, P)
    if not ctx.violations:
        P2 = dict(P)
        P2["design"] = []
        P2["driver"] = {"overlay_pkg": "felix/dataplane/linux", "run": "^TestVerifC28DP$", "timeout": 2400}
        P2["n_random"] = (0, 0)
        pipeline.standard_check(ctx, P2)
    if not ctx.violations:
        if not ctx.quick:
            # negative control: the model with the cache stamped at store time must violate the quiescent judgement
            r = core.tlc("clusterroutes", "DynRoutes", "MC_DynRoutes_bug.cfg", workers=2, timeout=300)
            if r.violated != "QuiescentHolds":
                raise HarnessError("DynRoutes with StampAtFinish = TRUE no longer violates QuiescentHolds: %s" % r.violated)
            ctx.notes["model_reproduces_stale_cache"] = {"states": r.distinct}
        pipeline.standard_check(ctx, P3)
        # the static legs enumerate their case space; the dynamic leg samples histories (see the rule text),
        # so the check as a whole is not exhaustive
        ctx.cov["exhaustive"] = False
        ctx.notes["static_legs_exhaustive"] = True
        ctx.notes["dynamic_leg"] = {"exhaustive": False, "design": "DynRoutes exhaustive on 2 pools x 3 modes, <= %d updates" % (3 if ctx.quick else 5)}


def selftest(ctx):
    def first_supported(evs, want_encap=None):
        for i, e in enumerate(evs):
            if e["ev"] == "reset" and _supported(e) and (want_encap is None or e["encap"] in want_encap):
                return i
        return None

    def flip_bird(evs):
        i = first_supported(evs)
        if i is None:
            return None
        for e in evs[i:]:
            if e["ev"] == "bird":
                if e["statements"]:
                    s = e["statements"][0]
                    s["action"] = "accept" if s["action"] == "reject" else "reject"
                else:
                    e["statements"] = [{"cidr": evs[i]["pool"], "action": "reject", "extra": ""}]
                return evs

    def drop_felix_route(evs):
        # Felix no longer computes the remote block's route in a case where it owns the pool
        for i, e in enumerate(evs):
            if e["ev"] == "reset" and _supported(e) and e["encap"] in ("vxlan", "vxlan-cross"):
                for f in evs[i:]:
                    if f["ev"] == "felix":
                        f["routes"] = [r for r in f["routes"] if r["rtype"] != "REMOTE_WORKLOAD"]
                        return evs

    def both_program(evs):
        # BIRD's filter accepts a VXLAN pool
        for i, e in enumerate(evs):
            if e["ev"] == "reset" and _supported(e) and e["encap"] in ("vxlan", "vxlan-cross"):
                for b in evs[i:]:
                    if b["ev"] == "bird":
                        b["statements"] = [{"cidr": e["pool"], "action": "accept", "extra": ""}]
                        return evs

    def swap_setting(evs):
        # the recorded observations belong to another Felix setting
        for e in evs:
            if e["ev"] == "reset" and _supported(e) and e["encap"] in ("ipip", "ipip-cross", "none") and \
                    e["felix"] in _VALUES and e["bgp"] in _VALUES:
                e["felix"], e["bgp"] = e["bgp"], e["felix"]
                return evs

    ok = pipeline.corruption_selftest(ctx, P, [("flip_bird", flip_bird), ("drop_felix_route", drop_felix_route),
                                               ("both_program", both_program), ("swap_setting", swap_setting)], n_random=120)

    # ---- dynamic leg
    def stale_statement(evs):
        # BIRD is left with a statement of the wrong polarity at a quiescent point (what a stale render cache does)
        for q, e in enumerate(evs):
            if e["ev"] == "quiesce" and evs[q - 1]["ev"] == "render" and evs[q - 1]["statements"]:
                r = copy.deepcopy(evs[q - 1])
                st = r["statements"][0]
                st["action"] = "accept" if st["action"] == "reject" else "reject"
                evs[q - 1] = r
                return evs

    def missing_encap(evs):
        # the resolver stays silent when a pool class Felix owns appears after in-sync
        none = {"ipip": False, "vxlan": False, "noencap": False}
        for q, e in enumerate(evs):
            if e["ev"] != "quiesce":
                continue
            t = e["t"]
            idx = [i for i in range(q) if evs[i]["t"] == t]
            if not any(evs[i]["ev"] == "insync" for i in idx):
                continue
            enc = [i for i in idx if evs[i]["ev"] == "encap"]
            if not enc:
                continue
            k = enc[-1]
            prev = evs[enc[-2]] if len(enc) > 1 else none
            sw = next(evs[i]["sw"] for i in idx if evs[i]["ev"] == "reset")
            for c, on in (("vxlan", True), ("ipip", sw["ipip"]), ("noencap", sw["noencap"])):
                if on and evs[k][c] and not prev[c]:
                    return evs[:k] + evs[k + 1:]

    ok3 = pipeline.corruption_selftest(ctx, P3, [("stale_statement", stale_statement), ("missing_encap", missing_encap)], n_random=60)
    return ok and ok3


MANIFEST = dict(
    text="ClusterRoutes.tla states the ownership tables (value -> classes, defaults for absent/unrecognised, the four supported "
         "pairings) and the property Holds(felix setting, bgp setting, encap, felixPrograms, birdPrograms); TLC checks that the tables "
         "are complementary exactly on the supported pairings and that VXLAN is always Felix's. TLC enumerates all 36 pairings x pool "
         "modes; an in-package driver asks the real confd (processIPPools -> kernel-programming filter statements) and the real Felix "
         "(config accessors, encapsulation calculator, calculation graph routes; second driver: ipipManager writing routes) and TLC "
         "evaluates the filter and judges Holds for every case. Dynamic leg: DynRoutesProp.tla reads the same judgement at every "
         "quiescent point of a history (current BGP setting, current pools, the statements BIRD holds, the last Encapsulation message "
         "Felix's calculation graph sent); DynRoutes.tla models confd's render cache (revision read at render start, stamp, cache hit) "
         "and Felix's resolver, TLC checks it exhaustively against DynRoutesProp (and, thorough tier, that stamping the cache at store "
         "time violates it); TLC random walks with updates landing mid-render are replayed on a real confd client (onUpdates, "
         "GetBirdBGPConfig) and a real Felix calculation graph, and T_DynRoutes judges the recorded events.",
    design_ref="3.7 C28",
    technique="TLA+ spec (ClusterRoutes, DynRoutes) + TLC exhaustive; TLC-generated cases and histories replayed on real confd and Felix code; "
              "trace validation with TLC",
)
