"""C28 - exactly one of Felix and BIRD programs each IP pool's cluster routes (felix/config, felix/calc,
felix/dataplane/linux ipipManager, confd bgp_processor)."""
from vlib import pipeline

_VALUES = ("Disabled", "Enabled", "EnabledIPIPOnly", "EnabledNoEncapOnly")
_SUPPORTED = {("EnabledIPIPOnly", "EnabledNoEncapOnly"), ("Enabled", "Disabled"), ("Disabled", "Enabled"),
              ("EnabledNoEncapOnly", "EnabledIPIPOnly")}


def _supported(r):
    # evidence counting only (the judgement is ClusterRoutes!Holds in TLA+)
    f = r["felix"] if r["felix"] in _VALUES else "EnabledIPIPOnly"
    b = r["bgp"] if r["bgp"] in _VALUES else "EnabledNoEncapOnly"
    return (f, b) in _SUPPORTED


def signature(t_id, events, off, reason):
    r = events[0]
    return "%s:felix=%s,bgp=%s,encap=%s,ipv%s" % (events[off].get("ev"), r.get("felix"), r.get("bgp"), r.get("encap"), r.get("ipv"))


def nontrivial(evs):
    kinds = {e["ev"] for e in evs}
    return ("verdict" in kinds and _supported(evs[0])) or "verdict_felix" in kinds


P = {
    "specdir": "clusterroutes",
    "design": [{"module": "ClusterRoutes", "cfg": "MC_ClusterRoutes.cfg", "workers": 1, "allow_zero": ("Next",)}],
    "gen": {"module": "Gen_ClusterRoutes", "cfg": "Gen_ClusterRoutes.cfg", "workers": 1},
    "driver": {"overlay_pkg": "confd/pkg/backends/calico", "run": "^TestVerifC28$", "timeout": 2400},
    "n_random": (40, 2000),
    "trace": {"module": "T_ClusterRoutes", "cfg": "T_ClusterRoutes.cfg"},
    "signature": signature,
    "nontrivial": nontrivial,
    "rule": "one trace = one (Felix setting, BGP setting, pool encapsulation, IP version) case: all 6x6 pairings x 5 encapsulation "
            "modes for IPv4 pools and x 3 for IPv6 pools from TLC (288), plus seeded random cases with other CIDRs; the real Felix side "
            "(felix/config UpdateFrom + accessors, felix/calc EncapsulationCalculator + calculation graph emitting the remote block's "
            "route) and the real confd side (processIPPools rendering BIRD's kernel-programming filter) are recorded and "
            "ClusterRoutes!Holds is judged; second pass: a real ipipManager per Felix setting x IPIP mode must write the remote "
            "block's route iff the setting assigns IPIP to Felix; non-trivial = the pairing is a supported one (the property's "
            "antecedent) or a dataplane-manager case",
    "assumptions": ["bird_ipam.cfg.template renders KernelFilterForIPPools in order and ends calico_kernel_programming with `accept;`",
                    "Felix 'programs' a pool = its calculation graph emits the remote block's route and the switch the dataplane "
                    "consumes for the pool's class is on; the creation gate of noEncapManager inside NewIntDataplaneDriver "
                    "(ProgramNoEncapClusterRoutes && NoEncapNeeded) is not executed (it needs a real kernel dataplane)"],
    "exhaustive": True,
}


def run(ctx):
    pipeline.standard_check(ctx, P)
    if not ctx.violations:
        P2 = dict(P)
        P2["design"] = []
        P2["driver"] = {"overlay_pkg": "felix/dataplane/linux", "run": "^TestVerifC28DP$", "timeout": 2400}
        P2["n_random"] = (0, 0)
        pipeline.standard_check(ctx, P2)
        ctx.cov["exhaustive"] = True


def selftest(ctx):
    def first_supported(evs, want_encap=None):
        for i, e in enumerate(evs):
            if e["ev"] == "reset" and _supported(e) and (want_encap is None or e["encap"] in want_encap):
                return i
        return None

    def flip_bird(evs):
        i = first_supported(evs)
        if i is None:
            return None
        for e in evs[i:]:
            if e["ev"] == "bird":
                if e["statements"]:
                    s = e["statements"][0]
                    s["action"] = "accept" if s["action"] == "reject" else "reject"
                else:
                    e["statements"] = [{"cidr": evs[i]["pool"], "action": "reject", "extra": ""}]
                return evs

    def drop_felix_route(evs):
        # Felix no longer computes the remote block's route in a case where it owns the pool
        for i, e in enumerate(evs):
            if e["ev"] == "reset" and _supported(e) and e["encap"] in ("vxlan", "vxlan-cross"):
                for f in evs[i:]:
                    if f["ev"] == "felix":
                        f["routes"] = [r for r in f["routes"] if r["rtype"] != "REMOTE_WORKLOAD"]
                        return evs

    def both_program(evs):
        # BIRD's filter accepts a VXLAN pool
        for i, e in enumerate(evs):
            if e["ev"] == "reset" and _supported(e) and e["encap"] in ("vxlan", "vxlan-cross"):
                for b in evs[i:]:
                    if b["ev"] == "bird":
                        b["statements"] = [{"cidr": e["pool"], "action": "accept", "extra": ""}]
                        return evs

    def swap_setting(evs):
        # the recorded observations belong to another Felix setting
        for e in evs:
            if e["ev"] == "reset" and _supported(e) and e["encap"] in ("ipip", "ipip-cross", "none") and \
                    e["felix"] in _VALUES and e["bgp"] in _VALUES:
                e["felix"], e["bgp"] = e["bgp"], e["felix"]
                return evs

    return pipeline.corruption_selftest(ctx, P, [("flip_bird", flip_bird), ("drop_felix_route", drop_felix_route),
                                                 ("both_program", both_program), ("swap_setting", swap_setting)], n_random=120)


MANIFEST = dict(
    text="ClusterRoutes.tla states the ownership tables (value -> classes, defaults for absent/unrecognised, the four supported "
         "pairings) and the property Holds(felix setting, bgp setting, encap, felixPrograms, birdPrograms); TLC checks that the tables "
         "are complementary exactly on the supported pairings and that VXLAN is always Felix's. TLC enumerates all 36 pairings x pool "
         "modes; an in-package driver asks the real confd (processIPPools -> kernel-programming filter statements) and the real Felix "
         "(config accessors, encapsulation calculator, calculation graph routes; second driver: ipipManager writing routes) and TLC "
         "evaluates the filter and judges Holds for every case.",
    design_ref="3.7 C28",
    technique="TLA+ spec (ClusterRoutes) + TLC exhaustive; TLC-generated cases replayed on real confd and Felix code; trace validation with TLC",
)
