"""C03 - each local endpoint gets exactly its matching policies, correctly ordered (felix/calc policy resolver / sorter)."""
from vlib import pipeline
from checks import calc_common as cc

CFG = "T_C03.cfg"
UNIVERSES = ["order", "policy", "names"]


def nontrivial(evs):
    # some endpoint was emitted with at least two policies in one direction of one tier, or with at least two tiers
    for e in evs:
        if e["ev"] == "emit" and e["m"]["kind"] in ("wep_update", "hep_update"):
            ts = e["m"]["body"]["tiers"]
            if len(ts) >= 2 or any(len(t["ing"]) >= 2 or len(t["eg"]) >= 2 for t in ts):
                return True
    return False


RULE = ("TLC behaviours of Gen_CalcEnv (environment transition cover) bound by seed to keys of the `order` universe (policies with "
        "equal / unset orders and tie-breaking names across kinds and namespaces, tiers with equal / unset orders, tier moves, "
        "ingress-only / egress-only types, a tier that is never created, selectors matching through inherited profile labels) and the "
        "`policy` universe, plus seeded random histories; at every in-sync flush TLC requires: the emitted endpoints are exactly the "
        "local ones, the active policies exactly those matching some local endpoint's effective labels, every endpoint's tier lists "
        "hold exactly its matching policies split by types, sorted by (order, unset last, name); existing tiers sorted by (order, "
        "unset last, name); non-trivial = an endpoint emitted with two tiers or two policies in one list")


def make_P(ctx):
    return cc.make_P(ctx, CFG, UNIVERSES, nontrivial, RULE, design=False, env={"VERIF_FRESH": "none", "VERIF_WINDOWS": "most"}, quick_beh=200, n_random=(360, 4000),
                     assumptions=["policies naming a tier that does not exist: the statement orders *existing* tiers only, so the position of such a "
                                  "tier group is not judged (the code puts it last); that its policies are listed is required (their selector matches)",
                                  "tie-break: the statement says (order, name); policies equal in both may appear in either order"])


def run(ctx):
    pipeline.standard_check(ctx, make_P(ctx))


def selftest(ctx):
    P = make_P(ctx)

    def swap_two(evs):           # two policies of one list swapped
        for e in evs:
            if e["ev"] == "emit" and e["m"]["kind"] in ("wep_update", "hep_update"):
                for t in e["m"]["body"]["tiers"]:
                    for d in ("ing", "eg"):
                        if len(t[d]) >= 2 and t[d][0] != t[d][1]:
                            t[d][0], t[d][1] = t[d][1], t[d][0]
                            return evs

    def swap_tiers(evs):         # every endpoint lists its first two tiers in the opposite order
        n = 0
        for e in evs:
            if e["ev"] == "emit" and e["m"]["kind"] in ("wep_update", "hep_update") and len(e["m"]["body"]["tiers"]) >= 2:
                ts = e["m"]["body"]["tiers"]
                ts[0], ts[1] = ts[1], ts[0]
                n += 1
        return evs if n else None

    def lose_policy(evs):        # a matching policy missing from the list
        for e in evs:
            if e["ev"] == "emit" and e["m"]["kind"] in ("wep_update", "hep_update"):
                for t in e["m"]["body"]["tiers"]:
                    if t["ing"]:
                        t["ing"] = t["ing"][1:]
                        return evs

    def extra_active_policy(evs):  # a policy that applies to no local endpoint is sent
        for i, e in enumerate(evs):
            if e["ev"] == "emit" and e["m"]["kind"] == "policy_remove":
                return evs[:i] + evs[i + 1:]

    return cc.selftest(ctx, P, [("swap_two", swap_two), ("swap_tiers", swap_tiers), ("lose_policy", lose_policy),
                                ("extra_active_policy", extra_active_policy)], n_random=150)


MANIFEST = dict(
    text="Delivery histories (TLC-generated from the syncer contract + seeded random) over universes built around ordering corners are "
         "replayed on the real calculation graph; at every in-sync flush TLC computes, from the catalogue projection of the delivered "
         "values (selector ASTs exported from the real parser, labels, orders, types), which policies match which local endpoint "
         "(Selectors.tla, own labels overriding inherited profile labels) and requires the emitted per-endpoint tier lists to contain "
         "exactly those policies, grouped by tier, split by ingress/egress, in ascending (order, unset last, name) with existing tiers "
         "in ascending (order, unset last, name), and the set of active policies to be exactly those applying to some local endpoint.",
    design_ref="3.1 C03",
    technique="TLA+ (P_Calc Want layer, Selectors.tla) + TLC; TLC-generated histories replayed on real code; trace validation with TLC",
)
