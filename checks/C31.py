"""C31 - per-workload policy sync streams are complete, minimal and ordered (felix/policysync.Processor)."""
import os

from vlib import pipeline


def signature(t_id, events, off, reason):
    e = events[off]
    k = e.get("msg", {}).get("kind") or e.get("o", {}).get("op") or ""
    return "%s:%s:%s" % (reason, e.get("ev"), k)


def nontrivial(evs):
    # the stream of some join carried an object that other objects refer to (policy, profile or IP set)
    return any(e["ev"] == "out" and e["msg"]["kind"] in ("pol_update", "prof_update", "set_update") for e in evs)


P = {
    "specdir": "policysync",
    "design": [{"module": "I_PolicySync", "cfg": "MC_I_PolicySync_pol5.cfg", "thorough_cfg": "MC_I_PolicySync_pol8.cfg",
                "workers": 4, "timeout": 900, "thorough_timeout": 1700, "heap": "4g"}],
    "gen": {"module": "Gen_PolicySync", "cfg": "Gen_cover.cfg", "thorough_cfg": "Gen_cover4.cfg", "workers": 1,
            "max": 700, "thorough_max": 30000, "timeout": 600, "thorough_timeout": 1700},
    "driver": {"cmd": "polsync"},
    "n_random": (250, 5000),
    "trace": {"module": "T_PolicySync", "cfg": "T_PolicySync.cfg", "timeout": 900, "heap": "4g"},
    "chunk": 150000,
    "signature": signature,
    "nontrivial": nontrivial,
    "rule": "behaviours = one per transition of I_PolicySync's state graph (2 workloads, 2 policies, 1 profile, 2 IP sets, "
            "1 service account, 1 namespace, <=3 inputs in quick / <=4 in thorough; TLC VIEW + ACTION_CONSTRAINT) thinned by "
            "seed, TLC -simulate walks of 30 inputs weighted towards joins/leaves/endpoint updates, plus seeded random input "
            "sequences (2-3 workloads, 2-4 policies, 1-2 profiles, 2-4 IP sets with 2-4 members, re-joins, stale leaves, "
            "endpoint removal while joined) that respect the calculation graph's referential guarantees; a trace is "
            "non-trivial when some join's stream carried a policy, profile or IP set",
    "assumptions": ["inputs respect the calculation graph's own guarantees (C02): endpoints name active policies/profiles, these name "
                    "existing IP sets, objects are removed only when unreferenced, deltas are disjoint from / contained in the set",
                    "IP set updates stay below MaxMembersPerMessage (82200): message splitting is not exercised"],
    "exhaustive": False,
}


def run(ctx):
    P1 = dict(P)
    if os.environ.get("VERIF_NODESIGN"):      # development aid for mutation campaigns: legs A+B only
        P1["design"] = []
    elif ctx.quick:
        P1["design"] = P["design"] + [{"module": "I_PolicySync", "cfg": "MC_I_PolicySync_quick.cfg", "workers": 4,
                                        "timeout": 900, "heap": "4g"}]
    else:
        P1["design"] = P["design"] + [{"module": "I_PolicySync", "cfg": "MC_I_PolicySync_quick.cfg",
                                        "thorough_cfg": "MC_I_PolicySync_all5.cfg", "workers": 4,
                                        "thorough_timeout": 1700, "heap": "4g"}]
    pipeline.standard_check(ctx, P1)
    if not ctx.replay and not ctx.violations:
        P2 = dict(P)
        P2["design"] = []
        P2["gen"] = {"module": "Gen_PolicySync", "cfg": "Gen_sim.cfg", "simulate": {"num": 30, "depth": 400},
                     "thorough_simulate": {"num": 600, "depth": 400}, "timeout": 600, "thorough_timeout": 1700}
        P2["n_random"] = (0, 0)
        pipeline.standard_check(ctx, P2)


def selftest(ctx):
    def drop_endpoint(evs):
        seen = set()
        for i, e in enumerate(evs):
            if e["ev"] == "reset":
                seen = set()
            if e["ev"] == "out" and e["msg"]["kind"] == "wep_update":
                if e["j"] not in seen:
                    return evs[:i] + evs[i + 1:]
                seen.add(e["j"])

    def reference_before_sent(evs):
        # move the first policy a join ever receives behind the endpoint update that names it
        got = set()
        for i, e in enumerate(evs):
            if e["ev"] == "reset":
                got = set()
            if e["ev"] == "out" and e["msg"]["kind"] == "pol_update":
                key = (e["j"], e["msg"]["id"])
                if key not in got:
                    for k in range(i + 1, len(evs)):
                        f = evs[k]
                        if f["ev"] != "out" or f["j"] != e["j"]:
                            break
                        if f["msg"]["kind"] == "wep_update" and e["msg"]["id"] in f["msg"]["pols"]:
                            return evs[:i] + evs[i + 1:k + 1] + [e] + evs[k + 1:]
                got.add(key)

    def stale_version(evs):
        for e in evs:
            if e["ev"] == "out" and e["msg"]["kind"] == "pol_update":
                e["msg"]["ver"] += 5
                return evs

    def lose_member(evs):
        for e in evs:
            if e["ev"] == "out" and e["msg"]["kind"] == "set_update" and e["msg"]["m"]:
                e["msg"]["m"] = e["msg"]["m"][1:]
                return evs

    def send_after_leave(evs):
        joined = set()
        for i, e in enumerate(evs):
            if e["ev"] == "reset":
                joined = set()
            if e["ev"] == "in" and e["o"]["op"] == "join":
                joined.add(e["o"]["j"])
            if e["ev"] == "in" and e["o"]["op"] == "leave" and e["o"]["j"] in joined:
                for k in range(i + 1, len(evs)):
                    if evs[k]["ev"] == "stepdone":
                        extra = {"ev": "out", "j": e["o"]["j"], "msg": {"kind": "insync"}, "t": e["t"]}
                        return evs[:k] + [extra] + evs[k:]

    return pipeline.corruption_selftest(ctx, P, [("drop_endpoint", drop_endpoint),
                                                 ("reference_before_sent", reference_before_sent),
                                                 ("stale_version", stale_version), ("lose_member", lose_member),
                                                 ("send_after_leave", send_after_leave)], n_random=30)


MANIFEST = dict(
    text="TLC checks exhaustively (2 workloads, 2 policies, 1 profile, 2 IP sets, service account, namespace; every sequence "
         "of <=5 inputs (quick; <=7 thorough): dataplane updates, joins, re-joins, leaves) that the Processor design (I_PolicySync, transcribed "
         "handler by handler, map orders nondeterministic) satisfies the property layer P_PolicySync: after every message of "
         "a join's stream nothing held refers to something not held, after every input each active join holds exactly its "
         "endpoint and the latest policies/profiles/IP sets (full membership)/service accounts/namespaces it needs, and "
         "nothing is sent after leave or re-join. Generated input sequences are replayed on the real Processor goroutine "
         "(deterministic through unbuffered channels + a barrier message) and every recorded input, output message and "
         "channel closure is validated by TLC against P_PolicySync; plus seeded random sequences over larger universes.",
    design_ref="3.4 C31",
    technique="TLA+ spec (P_PolicySync/I_PolicySync) + TLC; TLC-generated behaviours replayed on the real code; trace "
              "validation with TLC",
)
