"""C42 - BPF service load-balancing maps are never inconsistent mid-update (felix/bpf/proxy Syncer)."""
import copy

from vlib import pipeline


def signature(t_id, events, off, reason):
    e = events[off]
    what = e.get("ev")
    if what == "write":
        what = "write-%s-%s" % (e.get("m"), e.get("op"))
    elif what == "sync_done":
        what = "sync_done-%s" % ("ok" if e.get("ok") else "failed")
    return "%s:%s" % (reason, what)


def nontrivial(evs):
    # the count invariant is exercised when a write happens while some frontend counts backends, and the
    # exactness condition when a sync completes for a service that has a ready endpoint
    counted = any(e["ev"] == "write" and any(f["count"] > 0 for f in e["fe"]) for e in evs)
    exact = any(e["ev"] == "sync_done" and e["ok"] and any(ep["ready"] for s in e["svcs"] for ep in s["eps"])
                for e in evs)
    return counted and exact


TLC = {"workers": 4, "heap": "4g"}

P = {
    "specdir": "bpf_syncer",
    "design": [dict(TLC, module="I_Syncer", cfg="MC_I_Syncer_quick.cfg", thorough_cfg="MC_I_Syncer.cfg",
                    timeout=600, thorough_timeout=3000)],
    "gen": dict(TLC, module="Gen_Syncer", cfg="Gen_cover.cfg", thorough_cfg="Gen_cover_thorough.cfg",
                max=400, thorough_max=6000, timeout=600, thorough_timeout=1800),
    # the cover generator's model has one node-port IP: same here, so that its crash points reach every write
    "driver": {"cmd": "syncer", "env": {"VERIF_NPIPS": "1"}},
    "n_random": (120, 2000),
    # rerun_attempts: the syncer iterates Go maps (which service gets which id/slot varies between runs), so a rejected
    # history is re-executed up to 6 times; a verdict still needs a re-execution that is rejected again
    "trace": {"module": "T_Syncer", "cfg": "T_Syncer.cfg", "heap": "4g", "timeout": 900, "rerun_attempts": 6},
    "chunk": 30000,
    "signature": signature,
    "nontrivial": nontrivial,
    "rule": "behaviours = for every transition of I_Syncer's state graph (2 services x 2 endpoints, node port, <= 2 edits, "
            "<= 1 crash/restart) that completes an Apply, crashes it after write k (every reachable k) or restarts the Syncer: the "
            "history of desired states leading there (TLC, VIEW + ACTION_CONSTRAINT), thinned by seed in quick tier; plus TLC "
            "-simulate walks over 2 services x 3 endpoints with external IP / LB IP / node port / externalTrafficPolicy; plus "
            "seeded random histories over 2-4 services x 2-5 endpoints (port and protocol changes, terminating endpoints, "
            "shuffled endpoint order, pre-existing foreign map content incl. two services sharing an id, crash after write k, "
            "restarts). A trace is non-trivial if some write happens while a frontend counts backends and a sync completes "
            "for a service with a ready endpoint; distinct = distinct event sequences",
    "assumptions": ["the maps are felix/bpf/mock maps behind a recording wrapper: a write is one Update/Delete call of the "
                    "maps.Map interface (the kernel's batch operations are not used by the mock path)",
                    "crash = the process stops between two map writes; nothing but the two maps survives",
                    "no Maglev, no LB source ranges, no internalTrafficPolicy: Local, no topology hints; the service "
                    "default/kubernetes (which deliberately keeps last-known-good backends) is not used",
                    "externalTrafficPolicy: Local is demanded of node ports and LB IPs; external IPs may or may not honour it"],
    "exhaustive": False,
}


def run(ctx):
    P1 = dict(P)
    if not ctx.quick:
        # thorough: a second exhaustive design run with LB IPs and externalTrafficPolicy: Local
        P1["design"] = P["design"] + [dict(TLC, module="I_Syncer", cfg="MC_I_Syncer_opts.cfg", thorough_timeout=3000)]
    pipeline.standard_check(ctx, P1)
    ctx.notes["leg_cover"] = {k: ctx.notes.get(k) for k in ("behaviours_from_tlc", "behaviour_generator", "trace_validation")}
    if not ctx.replay and not ctx.violations:
        # second generator: TLC random walks over the bigger universe (2 x 3, all options)
        P2 = dict(P)
        P2["design"] = []
        P2["gen"] = dict(TLC, module="Gen_Syncer", cfg="Gen_sim.cfg", workers=1, timeout=600, thorough_timeout=1800,
                         simulate={"num": 30, "depth": 800}, thorough_simulate={"num": 600, "depth": 800})
        P2["driver"] = {"cmd": "syncer"}
        P2["n_random"] = (0, 0)
        pipeline.standard_check(ctx, P2)
        ctx.notes["leg_simulate"] = {k: ctx.notes.get(k) for k in ("behaviours_from_tlc", "behaviour_generator", "trace_validation")}


def selftest(ctx):
    def drop_write(evs):
        # a write missing from the trace: the next snapshot is not "previous content + one write"
        for i, e in enumerate(evs):
            if e["ev"] == "write" and e["m"] == "be" and i > 3:
                return evs[:i] + evs[i + 1:]

    def flip_count(evs):
        # a frontend written with a count one larger than the backends that exist
        for e in evs:
            if e["ev"] == "write" and e["m"] == "fe" and e["op"] == "upd" and e["rec"]["count"] > 0:
                e["rec"] = dict(e["rec"], count=e["rec"]["count"] + 1)
                for f in e["fe"]:
                    if (f["ip"], f["port"], f["proto"]) == (e["rec"]["ip"], e["rec"]["port"], e["rec"]["proto"]):
                        f["count"] += 1
                return evs

    def early_backend_delete(evs):
        # a backend disappears from the maps while a frontend still counts it (write + snapshot consistent)
        for i, e in enumerate(evs):
            if e["ev"] == "write" and e["m"] == "fe" and e["op"] == "upd" and e["rec"]["count"] > 0:
                fid, n = e["rec"]["id"], e["rec"]["count"]
                be = [b for b in e["be"] if not (b["id"] == fid and b["idx"] == n - 1)]
                if len(be) == len(e["be"]):
                    continue
                fake = {"t": e["t"], "ev": "write", "m": "be", "op": "del", "by": "syncer",
                        "rec": {"id": fid, "idx": n - 1}, "fe": e["fe"], "be": be}
                return evs[:i + 1] + [fake] + evs[i + 1:]

    def snapshot_loses_backend(evs):
        # the final maps of a completed sync lack a backend the frontends count
        for i, e in enumerate(evs):
            if e["ev"] == "sync_done" and e["ok"] and e["be"]:
                e["be"] = e["be"][:-1]
                return evs

    def not_ready_listed(evs):
        # the desired state says an endpoint that is listed is not ready
        for e in evs:
            if e["ev"] == "sync_done" and e["ok"]:
                for s in e["svcs"]:
                    for ep in s["eps"]:
                        if ep["ready"]:
                            ep["ready"] = False
                            return evs

    def stale_frontend(evs):
        # a service the maps still serve is no longer desired
        for e in evs:
            if e["ev"] == "sync_done" and e["ok"] and len(e["svcs"]) >= 1 and e["fe"]:
                e["svcs"] = e["svcs"][1:]
                return evs

    def local_not_first(evs):
        # a remote endpoint of a completed sync is declared local although a remote one precedes it
        for e in evs:
            if e["ev"] == "sync_done" and e["ok"]:
                for s in e["svcs"]:
                    ready = [ep for ep in s["eps"] if ep["ready"]]
                    loc = [ep for ep in ready if ep["local"]]
                    rem = [ep for ep in ready if not ep["local"]]
                    if loc and rem:
                        for ep in loc:
                            ep["local"] = False
                        for ep in rem:
                            ep["local"] = True
                        return evs

    def fresh(fn):
        # corruption_selftest hands out shallow copies; the corruptions edit nested lists
        return lambda evs: fn(copy.deepcopy(evs))

    return pipeline.corruption_selftest(ctx, P, [(n, fresh(f)) for n, f in [
        ("drop_write", drop_write), ("flip_count", flip_count), ("early_backend_delete", early_backend_delete),
        ("snapshot_loses_backend", snapshot_loses_backend), ("not_ready_listed", not_ready_listed),
        ("stale_frontend", stale_frontend), ("local_not_first", local_not_first)]], n_random=30)


MANIFEST = dict(
    text="Every single write the real proxy.Syncer makes to the frontend / backend maps (recording wrapper around "
         "felix/bpf/mock) is replayed by TLC against module Syncer: after EVERY write each frontend's count refers only to "
         "existing backends (invariant CountInv), and whenever Apply returns nil every frontend (cluster IP, external / LB "
         "IPs, node ports) lists exactly the ready endpoints, local first, local-only under externalTrafficPolicy: Local, "
         "with no stale frontend or backend (Exact). Histories come from TLC (every crash point of every sync of the "
         "implementation-shaped I_Syncer, which TLC also checks exhaustively against the same invariants) and from seeded "
         "random edits incl. service id reuse, crash after write k and a new Syncer on the same maps.",
    design_ref="3.5 C42",
    technique="TLA+ spec (Syncer/I_Syncer) + TLC; TLC-generated behaviours replayed; trace validation with TLC",
)
