"""C09 - endpoint verdicts follow tier, pass, staged and profile semantics.

Endpoint layouts (TLC-enumerated small ones + seeded larger ones) -> real renderer (endpoint chain, policy
chains, policy-group chains, profile chains; iptables and nftables) -> nfparse -> TLC executes the endpoint
chain for every probe packet and compares with PolicySem!EndpointVerdict."""
import json
import os
import random

from checks import nf_common as nf
from vlib import core
from vlib.core import HarnessError, log

MODULE, CFG, DIAG = "T_C09", "T_C09.cfg", "T_C09_diag.cfg"


def nontrivial(p):
    # NPROBE = (probes, marks, number of distinct reference verdicts over the probes, case): the case
    # discriminates when at least two different verdicts are demanded
    return len(p) >= 3 and p[2] >= 2


def layouts(ctx):
    """All small layouts from TLC (Gen_C09); quick tier: a seeded sample of them."""
    r = core.tlc(nf.SPECDIR, "Gen_C09", "Gen_C09.cfg", workers=1, timeout=600)
    if r.violated or not r.behaviours:
        raise HarnessError("layout generator failed:\n" + r.out[-2000:])
    behs = r.behaviours
    total = len(behs)
    if ctx.quick:
        behs = random.Random(ctx.seed).sample(behs, 200)
    path = os.path.join(ctx.work, "layouts.json")
    json.dump(behs, open(path, "w"))
    ctx.notes["layouts_from_tlc"] = {"enumerated": total, "rendered": len(behs)}
    return path, total, len(behs)


def run(ctx):
    beh, total, used = layouts(ctx)
    n = 32 if ctx.quick else 600
    info, lines = nf.check_cases(ctx, mode="c09", n=n, module=MODULE, cfg=CFG, diag_cfg=DIAG, beh_path=beh, chunks=4,
                                 timeout=900 if ctx.quick else 3400, nontrivial_fn=nontrivial)
    ctx.cov["rule"] = ("layouts = (a) ALL layouts TLC enumerates for: one tier of 1-2 policies or two tiers of one policy, "
                       "policy = staged/enforced x 1-2 distinct rules over {allow tcp/80, deny from 10/8, pass udp}, tier default "
                       "Deny/Pass, inline or one policy group, no profile or one one-rule profile (7884 layouts; quick tier "
                       "renders a seeded sample of 200, thorough all), alternating direction / IP version / renderer / flow "
                       "logs; (b) seeded layouts: 0-3 tiers, 0-2 groups per direction of 1-11 policies (crossing the group "
                       "return stride of 5), staged 25% (some all-staged groups), default Pass 35%, 0-2 profiles, rules from a "
                       "12-shape alphabet incl. IP sets, named ports, negations and fully random rules, workload and host "
                       "endpoints (normal and apply-on-forward chains), DROP/REJECT, ACCEPT/RETURN, each rendered by both "
                       "renderers; packets = union of PolicyProbes!RuleProbes of every rule of the direction (staged "
                       "included) x 2 initial marks; non-trivial = at least two different verdicts demanded")
    ctx.cov["exhaustive"] = (not ctx.quick) and used == total
    ctx.assumptions += [
        "endpoint verdict of a rendered chain: RETURN with the accept bit = allow, configured DROP/REJECT = deny",
        "packets are first packets of a connection (ctstate NEW); TierPolicyGroups are built by the harness "
        "(the endpoint manager's grouping is not under test here)",
        "rules with ICMP type+code are kept out of these layouts (C08 known finding for the nftables spelling)",
        "pass rules are not generated in profiles (the statement does not define them)",
    ]


def selftest(ctx):
    def chains(c):
        return c["prog"]["chains"]

    def ep(c):
        return chains(c)[c["entry"]]

    def drop_end_of_tier_drop(c):
        rs = ep(c)
        for i, r in enumerate(rs):
            if r["a"]["k"] in ("drop", "reject") and r["m"] and r["m"][0]["k"] == "mark" and r["m"][0]["val"] == []:
                del rs[i]
                return c

    def staged_counts_in_reference(c):
        for t in c["tiers"]:
            for p in t["policies"]:
                if p["staged"] and p["rules"]:
                    p["staged"] = False
                    return c

    def drop_pass_guard(c):
        # a jump to a policy loses its "pass bit clear" guard
        # (a jump that directly follows the previous policy's "return if accepted": same tier)
        rs = ep(c)
        for i in range(1, len(rs)):
            r = rs[i]
            if r["a"]["k"] == "jump" and r["m"] and r["m"][0]["k"] == "mark" and rs[i - 1]["a"]["k"] == "return":
                r["m"] = []
                return c

    def default_action_flipped(c):
        for t in c["tiers"]:
            if any(not p["staged"] for p in t["policies"]):
                t["defaultAction"] = "Pass" if t["defaultAction"] != "Pass" else "Deny"
                return c

    def drop_policy_rule(c):
        for name, rs in chains(c).items():
            if name.startswith("cali-p") and len(rs) >= 2:
                del rs[0]
                return c

    def return_checks_pass_bit(c):
        for r in ep(c):
            if r["a"]["k"] == "return" and r["m"] and r["m"][0]["k"] == "mark" and r["m"][0]["val"] == [0]:
                r["m"][0]["val"], r["m"][0]["mask"] = [1], [1]
                return c

    return nf.corruption_selftest(ctx, mode="c09", n=60, module=MODULE, cfg=CFG, corruptions=[
        ("drop_end_of_tier_drop", drop_end_of_tier_drop), ("staged_counts_in_reference", staged_counts_in_reference),
        ("drop_pass_guard", drop_pass_guard), ("default_action_flipped", default_action_flipped),
        ("drop_policy_rule", drop_policy_rule), ("return_checks_pass_bit", return_checks_pass_bit)],
        eligible=nontrivial, tries=40)


MANIFEST = dict(
    text="Endpoint layouts (every small layout enumerated by TLC plus seeded larger ones with staged policies, policy "
         "groups crossing the return stride, tier default actions and profiles) are rendered by the real renderer for "
         "workload and host endpoints, iptables and nftables; the endpoint chain with all chains it reaches is executed "
         "by the TLA+ netfilter model for every boundary packet of every rule and must reach PolicySem!EndpointVerdict.",
    design_ref="3.2 C09",
    technique="TLA+ reference semantics (PolicySem) + TLA+ kernel model (Netfilter) evaluated by TLC over rule IR "
              "exported from the real renderer; layouts enumerated by TLC",
)
