"""C41, state half - the flow-offload exclusion set holds exactly the current addresses of every workload /
host endpoint that needs per-packet hooks (felix/dataplane/linux/flowtable_mgr.go, flowtableExclusionManager).

Leg of checks/C41.py:  run_state_half(ctx) / selftest_state_half(ctx).
"""
from checks import mgr_common
from vlib import pipeline

PKG = "felix/dataplane/linux"


def signature(t_id, events, off, reason):
    return "state:%s:%s" % (reason, events[off].get("ev"))


def _needs(f):
    return f["dscp"] > 0 or f["ipr"] or f["epr"] or f["imc"] or f["emc"]


def nontrivial(evs):
    # the antecedent: some flush happens while an endpoint that needs hooks holds an address, and some
    # endpoint that does not need hooks (or was removed) holds / held one too
    live = {}
    seen_excluded = seen_spared = False
    for e in evs:
        if e["ev"] in ("wep_update", "hep_update"):
            live[e["id"]] = e
        elif e["ev"] in ("wep_remove", "hep_remove"):
            if e["id"] in live:
                seen_spared = True
            live.pop(e["id"], None)
        elif e["ev"] == "flush":
            for x in live.values():
                has = bool(x["v4"] or x["v6"])
                if has and _needs(x["f"]):
                    seen_excluded = True
                if has and not _needs(x["f"]):
                    seen_spared = True
    return seen_excluded and seen_spared


P = {
    "specdir": "flowexcl",
    "design": [{"module": "MC_I_FlowExcl", "cfg": "MC_I_FlowExcl_quick.cfg", "thorough_cfg": "MC_I_FlowExcl.cfg",
                "workers": 4, "timeout": 300, "thorough_timeout": 1500, "heap": "4g"}],
    "gens": [
        {"module": "Gen_FlowExcl", "cfg": "Gen_cover.cfg", "workers": 2, "max": 1200, "thorough_max": 10000,
         "timeout": 300, "thorough_timeout": 900},
        {"module": "Gen_FlowExcl", "cfg": "Gen_sim.cfg", "simulate": {"num": 60, "depth": 40},
         "thorough_simulate": {"num": 1000, "depth": 40}, "timeout": 300, "thorough_timeout": 900},
    ],
    "driver": {"overlay_pkg": PKG, "run": "^TestVerifMgrFlowExcl$"},
    "n_random": (300, 4000),
    "trace": {"module": "T_FlowExcl", "cfg": "T_FlowExcl.cfg", "heap": "4g"},
    "chunk": 200000,
    "signature": signature,
    "nontrivial": nontrivial,
    "rule": "state half: behaviours = one per transition of the abstract (endpoints, programmed sets) graph over 2 WEPs "
            "+ 1 HEP (TLC, VIEW + ACTION_CONSTRAINT; thinned by seed in quick tier), TLC random walks over 3 WEPs + 2 HEPs "
            "with 8 feature variants, plus seeded random histories over up to 4 WEPs + 2 HEPs, 2-5 shared addresses per "
            "family, every QoS control toggling independently; a trace is non-trivial when a flush happens while an "
            "endpoint needing hooks holds an address and another endpoint not needing hooks (or removed) holds/held one",
    "assumptions": ["host endpoints carry QoS (DSCP) policies only (the HostEndpoint message has no QoSControls)",
                    "both IP-family instances receive every endpoint message, as in InternalDataplane"],
    "exhaustive": False,
}


def run_state_half(ctx):
    mgr_common.run_legs(ctx, P)


def selftest_state_half(ctx):
    def drop_update(evs):
        # lose an update of an endpoint that needs hooks, directly followed by a flush, whose address nobody
        # else in that trace ever used
        for i, e in enumerate(evs[:-1]):
            if e["ev"] in ("wep_update", "hep_update") and _needs(e["f"]) and e["v4"] and evs[i + 1]["ev"] == "flush":
                ip = e["v4"][0]["ip"]
                others = [x for x in evs[:i] if x["t"] == e["t"] and x["ev"] in ("wep_update", "hep_update")
                          and any(a["ip"] == ip for a in x["v4"])]
                if not others and ip in evs[i + 1]["set4"]:
                    return evs[:i] + evs[i + 1:]

    def add_member(evs):
        for e in evs:
            if e["ev"] == "flush":
                e["set4"] = e["set4"] + ["10.99.99.99"]
                return evs

    def lose_member(evs):
        for e in evs:
            if e["ev"] == "flush" and e["set6"]:
                e["set6"] = e["set6"][1:]
                return evs

    def bandwidth_only_counts(evs):
        # pretend a bandwidth-only endpoint was a packet-rate limited one: its addresses become expected.
        # Pick an update whose address is absent from the set at the next flush of the same trace.
        for i, e in enumerate(evs):
            if e["ev"] == "wep_update" and not _needs(e["f"]) and e["v4"]:
                for x in evs[i + 1:]:
                    if x["t"] != e["t"] or (x["ev"] in ("wep_update", "wep_remove") and x["id"] == e["id"]):
                        break
                    if x["ev"] == "flush":
                        if e["v4"][0]["ip"] not in x["set4"]:
                            e["f"] = dict(e["f"], ipr=5)
                            return evs
                        break

    return pipeline.corruption_selftest(ctx, P, [("drop_update", drop_update), ("add_member", add_member),
                                                 ("lose_member", lose_member),
                                                 ("bandwidth_only_counts", bandwidth_only_counts)], n_random=40)
