"""C08 - rendered iptables/nftables rules match exactly what the policy rule says.

One proto.Rule -> real ProtoRuleToIptablesRules (both the iptables and the nftables factories) -> nfparse
-> rule IR; TLC executes the IR with the kernel model (specs/lib/Netfilter.tla) for every probe packet the
rule itself determines (specs/lib/PolicyProbes.tla) and compares with PolicySem!RuleMatches."""
from checks import nf_common as nf

MODULE, CFG, DIAG = "T_C08", "T_C08.cfg", "T_C08_diag.cfg"


def nontrivial(p):
    # NPROBE = (probe packets, initial marks, probes matching the rule): the rule is exercised in both
    # directions when some probe matches and some does not
    return len(p) >= 3 and 0 < p[2] < p[0]


def run(ctx):
    nf.model_unit_check(ctx)
    n = 160 if ctx.quick else 3000
    info, _ = nf.check_cases(ctx, mode="c08", n=n, module=MODULE, cfg=CFG, diag_cfg=DIAG, chunks=4,
                             timeout=900 if ctx.quick else 3000, nontrivial_fn=nontrivial)
    ctx.cov["rule"] = ("cases = seeded random proto.Rules that pass API validation (protocol / not-protocol by name and number, "
                       "0-3 positive and negated CIDRs per side incl. /0, /32, nested, mixed-family lists and the negated "
                       "catch-all, 0-40 ports/ranges per side crossing the 15-slot split, named-port sets, positive/negated "
                       "IP sets, service ip+port sets, ICMP type / type+code / negated, every action, ipVersion 0/4/6, "
                       "flow logs on/off, DROP/REJECT; every 8th rule has CIDR fields mixing both families with either family first); ONE rule "
                       "object is rendered for IPv4, then IPv6 (dataplane order), and for IPv4 once more when it has mixed-family "
                       "lists, by both factories each time (4-6 cases per rule), and judged against a pristine copy; packets = "
                       "PolicyProbes!RuleProbes (bases satisfying all / all-but-one field predicates, starred with every "
                       "boundary value per field: CIDR and set-member edges +-1, port range ends +-1, named protocols + "
                       "others, ICMP type/code +-1) x 2 initial marks; a case is non-trivial when some probe matches the "
                       "rule and some does not")
    ctx.cov["exhaustive"] = False
    ctx.assumptions += [
        "kernel semantics of the rule IR are those of specs/lib/Netfilter.tla (xt_multiport/xt_set/xt_mark/xt_icmp, nft "
        "payload/lookup/meta expressions); nft syntax facts were cross-checked with `nft -c` 1.0.6 during development",
        "policy chains are entered with the accept and drop mark bits clear (guaranteed by the endpoint chains)",
        "generated rules satisfy the API validation; ICMP/notICMP fields only together with the ICMP protocol of the "
        "rendered IP version",
    ]


def selftest(ctx):
    def rules_of(c):
        return c["prog"]["chains"]["rule"]

    def verdict_rule(c):
        # the rule holding the "rest of the match criteria": it sets the accept / pass / drop bit
        for r in rules_of(c):
            a = r["a"]
            if a["k"] == "setmark" and (a["or"] or a["xor"]) in ([0], [1], [2]):
                return r

    def flip_negation(c):
        r = verdict_rule(c)
        for m in (r["m"] if r else []):
            if m["k"] in ("net", "set", "ports", "proto"):
                m["neg"] = not m["neg"]
                return c

    def drop_last_match_of_final_rule(c):
        # the rule that sets the verdict mark loses its first match -> it fires for packets it must not
        for r in rules_of(c):
            if r["a"]["k"] == "setmark" and len(r["m"]) >= 1 and any(m["k"] != "mark" for m in r["m"]) \
                    and (r["a"].get("or") or r["a"].get("xor")) in ([0], [1], [2]):
                r["m"] = [m for m in r["m"] if m["k"] == "mark"]
                return c

    def wrong_verdict_bit(c):
        if c["rule"]["action"] not in ("allow", ""):
            return None
        for r in rules_of(c):
            a = r["a"]
            if a["k"] == "setmark" and (a["or"] == [0] or a["xor"] == [0]):
                if a["or"] == [0]:
                    a["or"] = [1]
                else:
                    a["xor"], a["clr"] = [1], [1]
                for r2 in rules_of(c):
                    for m in r2["m"]:
                        if m["k"] == "mark" and m["val"] == [0]:
                            m["val"], m["mask"] = [1], [1]
                return c

    def drop_initial_mark_rule(c):
        rs = rules_of(c)
        # only where the first block is a negated one (its rules clear the all-blocks bit): without the
        # initial "set all-blocks" rule the rule can never match from a clear mark
        if len(rs) > 3 and not rs[0]["m"] and rs[0]["a"]["k"] == "setmark" and rs[0]["a"]["xor"] == [3]:
            del rs[0]
            return c

    def widen_port_range(c):
        for r in rules_of(c):
            for m in r["m"]:
                if m["k"] == "ports" and not m["neg"] and m["r"][0][1] < 65535:
                    m["r"][0][1] += 1
                    return c

    def reference_rule_changed(c):
        # corrupt the recorded proto rule instead of the IR
        if c["rule"]["dstNets"]:
            c["rule"]["dstNets"] = []
            return c

    return nf.corruption_selftest(ctx, mode="c08", n=120, module=MODULE, cfg=CFG, corruptions=[
        ("flip_negation", flip_negation), ("drop_matches_of_final_rule", drop_last_match_of_final_rule),
        ("wrong_verdict_bit", wrong_verdict_bit), ("drop_initial_mark_rule", drop_initial_mark_rule),
        ("widen_port_range", widen_port_range), ("reference_rule_changed", reference_rule_changed)],
        eligible=nontrivial)


MANIFEST = dict(
    text="Seeded random proto.Rules are rendered by the real ProtoRuleToIptablesRules with both the iptables and the "
         "nftables match/action factories; the rendered text is converted (pure syntax) to a rule IR that a netfilter "
         "kernel model written in TLA+ executes for every boundary packet of the rule (TLC computes the probe set from "
         "the rule); the rule's action must be taken iff PolicySem!RuleMatches, otherwise control must reach the next "
         "rule with the accept/pass/drop mark bits unchanged; programs the kernel would refuse to load are rejected.",
    design_ref="3.2 C08",
    technique="TLA+ reference semantics (PolicySem) + TLA+ kernel model (Netfilter) evaluated by TLC over rule IR "
              "exported from the real renderer",
)
