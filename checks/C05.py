"""C05 - missing or invalid references fail closed (felix/calc active rules calculator, validation filter)."""
from vlib import pipeline
from checks import calc_common as cc

CFG = "T_C05.cfg"
UNIVERSES = ["policy", "order", "ipsets"]


def has_invalid(evs):
    return any(e["ev"] == "deliver" and e["v"] == "bad" for e in evs)


def nontrivial(evs):
    # an invalid value was delivered, or a profile was emitted as the deny stand-in
    if has_invalid(evs):
        return True
    for e in evs:
        if e["ev"] == "emit" and e["m"]["kind"] == "profile_update":
            r = e["m"]["body"]["inr"]
            if len(r) == 1 and r[0]["action"] == "deny" and r[0]["nmatch"] == 0:
                return True
    return False


RULE = ("TLC behaviours of Gen_CalcEnv (environment transition cover: late creation, deletion while referenced, replacement by another "
        "version) bound by seed to catalogue keys whose variants include one that fails validation (endpoints, profiles, policies) + "
        "seeded random histories; at every in-sync flush TLC requires: active profiles = profiles named by local endpoints; a profile "
        "that is absent OR invalid is emitted as deny/deny, a present valid one with its real rules; policies with their real rules; "
        "and the whole folded dataplane state equals what a fresh real pipeline emits when the invalid values are left out entirely "
        "(invalid = absent, on every component); non-trivial = an invalid value was delivered or a deny stand-in was emitted")


def make_P(ctx):
    return cc.make_P(ctx, CFG, UNIVERSES, nontrivial, RULE, design=False, quick_beh=150, n_random=(150, 3000))


def run(ctx):
    pipeline.standard_check(ctx, make_P(ctx))


def selftest(ctx):
    P = make_P(ctx)

    def open_standin(evs):        # the stand-in for a missing profile allows instead of denying
        for e in evs:
            if e["ev"] == "emit" and e["m"]["kind"] == "profile_update":
                r = e["m"]["body"]["inr"]
                if len(r) == 1 and r[0]["action"] == "deny" and r[0]["nmatch"] == 0:
                    r[0]["action"] = "allow"
                    return evs

    def deny_kept(evs):           # the real rules never replace the deny
        seen = {}
        for i, e in enumerate(evs):
            if e["ev"] == "emit" and e["m"]["kind"] == "profile_update":
                k = (e["t"], e["m"]["id"])
                r = e["m"]["body"]["inr"]
                deny = len(r) == 1 and r[0]["action"] == "deny" and r[0]["nmatch"] == 0
                if k in seen and seen[k] and not deny:
                    return evs[:i] + evs[i + 1:]
                seen[k] = deny

    def invalid_applied(evs):     # an invalid endpoint reaches the dataplane: pretend it was a valid delivery
        for e in evs:
            if e["ev"] == "fresh" and e["absent"]:
                e["absent"] = False
                return evs

    return cc.selftest(ctx, P, [("open_standin", open_standin), ("deny_kept", deny_kept), ("invalid_applied", invalid_applied)], n_random=150)


MANIFEST = dict(
    text="Histories in which referenced profiles / policies / tiers appear late, disappear while referenced or are replaced by versions "
         "that fail validation (TLC-generated from the syncer contract + seeded random) are replayed on the real ValidationFilter -> "
         "CalcGraph -> EventSequencer; at every in-sync flush TLC requires every profile named by a local endpoint to be emitted, as "
         "deny/deny when it is absent or invalid and with its real rules otherwise, and the complete folded dataplane state to equal "
         "the state a freshly built real pipeline emits when every invalid value is omitted from its input (invalid is exactly absent: "
         "never partially applied, never more open).",
    design_ref="3.1 C05",
    technique="TLA+ (P_Calc Want layer) + TLC; TLC-generated histories replayed on real code; trace validation with TLC; fresh-instance oracle with invalid values omitted",
)
