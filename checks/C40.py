"""C40 - host protection and workload isolation hold on every packet path.

A generated host (Felix config, workloads and host endpoints with policies) -> all static chains of the
raw, mangle and filter tables, hook rules, dispatch, endpoint and policy chains from the real renderer ->
nfparse -> TLC walks whole packet paths (Netfilter!Path) and checks the four path invariants."""
from checks import nf_common as nf

MODULE, CFG, DIAG = "T_C40", "T_C40.cfg", "T_C40_diag.cfg"


def nontrivial(p):
    # NPROBE = (path walks, 1, number of the four invariants that had at least one probe, case)
    return len(p) >= 3 and p[2] >= 3


def sig(case, d):
    import re
    m = re.match(r'<<"CLASS", "invariant", "([\w-]+)"', d)
    if m:
        return "%s:invariant:%s" % (case.get("flavour", "-"), m.group(1))
    return nf.signature_of(case.get("flavour", "-"), d)


def run(ctx):
    n = 16 if ctx.quick else 300
    nf.check_cases(ctx, mode="c40", n=n, module=MODULE, cfg=CFG, diag_cfg=DIAG, chunks=4,
                   timeout=900 if ctx.quick else 3400, nontrivial_fn=nontrivial, sig_fn=sig)
    ctx.cov["rule"] = ("cases = seeded hosts: failsafe inbound/outbound port subsets (some restricted to a net, some of the other "
                       "family), DefaultEndpointToHostAction DROP/ACCEPT/RETURN/REJECT, filter and mangle allow action "
                       "ACCEPT/RETURN, DROP/REJECT, IPIP / VXLAN on/off, flow logs, 1-4 workloads with tiers/profiles, no / named / "
                       "wildcard / both host endpoints with normal, apply-on-forward, pre-DNAT and untracked policy (60% of the "
                       "host policies deny everything), both renderers per host; paths = to host (PREROUTING raw+mangle, INPUT "
                       "filter), from host (OUTPUT raw+filter, POSTROUTING mangle), forwarded (PREROUTING, FORWARD, POSTROUTING); "
                       "probes: every failsafe port x peers inside its net x 2 host interfaces; unknown workload-prefixed "
                       "interface names x a packet mix x input and forward paths; every boundary packet of every workload's "
                       "egress rules on the workload->host path; tunnel packets from every non-member address around the "
                       "host-set edges on host and workload interfaces; non-trivial = at least three of the four invariants probed")
    ctx.cov["exhaustive"] = False
    ctx.assumptions += [
        "tables are wired as InternalDataplane.setUpIptablesNormal, endpointManager and policyManager do (replicated in the "
        "harness: hook jump rules, which chains go to which table, verdict maps on the filter layer); the chains of other "
        "managers the static chains jump to (rpf-skip, cidr-block, egress-dscp) are empty; NAT tables are not modelled",
        "hook order raw -> mangle -> filter per hook; ACCEPT ends only the current table's base chain; marks persist",
        "invariant (ii) is stated for packets of new connections; the IPv6 neighbour-discovery/MLD ICMPv6 types that "
        "filterWorkloadToHostChain accepts before policy by design are excluded from invariant (iii)",
        "KubeIPVSSupport, Wireguard, OpenStack special cases, BPF mode and QoS controls are off",
    ]


def selftest(ctx):
    def filt(c):
        return c["tables"]["filter"]["prog"]["chains"]

    def find(c, table, suffix):
        for n in sorted(c["tables"][table]["prog"]["chains"]):
            if n.endswith(suffix):
                return c["tables"][table]["prog"]["chains"][n]

    def failsafe_rule_lost(c):
        rs = find(c, "filter", "cali-failsafe-in")
        if rs and (c["hepIfaces"] or c["wildcard"]):
            del rs[:]
            for t in ("raw", "mangle"):
                r2 = find(c, t, "cali-failsafe-in")
                if r2:
                    del r2[:]
            return c

    def unknown_iface_drop_lost(c):
        rs = find(c, "filter", "cali-from-wl-dispatch")
        if rs and rs[-1]["a"]["k"] in ("drop", "reject"):
            rs[-1]["a"] = {"k": "return"}
            return c

    def to_host_action_before_policy(c):
        # the workload-to-host chain applies the configured action before dispatching to the endpoint chains
        rs = find(c, "filter", "cali-wl-to-host")
        if rs and c["cfg"]["epToHost"] == "ACCEPT" and c["workloads"]:
            i = [k for k, r in enumerate(rs) if r["a"]["k"] == "jump" and r["a"]["t"].endswith("cali-from-wl-dispatch")]
            if i:
                rs.insert(i[0], {"m": [], "a": {"k": "accept"}})
                return c

    def tunnel_drop_lost(c):
        rs = find(c, "filter", "cali-INPUT")
        if rs and (c["cfg"]["ipip"] or c["cfg"]["vxlan"]):
            for i, r in enumerate(rs):
                if r["a"]["k"] in ("drop", "reject") and r["m"] and r["m"][0]["k"] == "proto":
                    del rs[i]
                    return c

    def input_hook_rule_lost(c):
        base = c["tables"]["filter"]["base"]["INPUT"]
        rs = c["tables"]["filter"]["prog"]["chains"][base]
        if rs:
            del rs[0]
            return c

    return nf.corruption_selftest(ctx, mode="c40", n=16, module=MODULE, cfg=CFG, corruptions=[
        ("failsafe_rule_lost", failsafe_rule_lost), ("unknown_iface_drop_lost", unknown_iface_drop_lost),
        ("to_host_action_before_policy", to_host_action_before_policy), ("tunnel_drop_lost", tunnel_drop_lost),
        ("input_hook_rule_lost", input_hook_rule_lost)], eligible=nontrivial, tries=6)


MANIFEST = dict(
    text="Seeded hosts (Felix configuration, workloads, named and wildcard host endpoints with normal, forward, pre-DNAT and "
         "untracked policy) are rendered completely - static raw/mangle/filter chains, hook rules, dispatch, endpoint and "
         "policy chains, iptables and nftables - and TLC walks whole netfilter paths through the TLA+ kernel model: failsafe "
         "ports are never dropped, unknown workload interfaces are dropped on input and forward, the workload's egress "
         "policy decides before the endpoint-to-host action, tunnel packets from non-cluster sources are dropped.",
    design_ref="3.2 C40",
    technique="TLA+ reference semantics (PolicySem) + TLA+ kernel model with hook traversal (Netfilter!Path) evaluated by "
              "TLC over rule IR exported from the real renderer",
)
