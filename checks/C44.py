"""C44 - each workload interface carries exactly the state of its preferred endpoint
(felix/dataplane/linux/endpoint_mgr.go: resolveWorkloadEndpoints / wlIdsAscending)."""
from checks import mgr_common

PKG = "felix/dataplane/linux"


def _pref(state, name):
    c = sorted(i for i, n in state.items() if n == name)
    return c[0] if c else None


def root_cause_labels(evs, off):
    """LABELS ONLY (used to key known findings; the verdict was already given by the TLA+ spec).
    Walk the told history up to the refused observation at evs[off] and name the situations of the last
    batch that are the documented root causes in notes/C44.md:
      winner-renamed-away        the preferred claimant of a contested name was updated to another name
      renamed-into-shadow        an endpoint that carried state on its name was updated to a name on which it
                                 is not the preferred claimant
      winner-removed+shadowed-op the preferred claimant of a contested name was removed in the same batch as
                                 an update/removal of another claimant of that name
      stale-shadow-copy          the preferred claimant of a name was removed while an endpoint that used to be
                                 shadowed on that name, and has since been updated away from it, is still live
    """
    cur, prev = {}, {}
    shadow_copy = {}            # id -> name of the copy the implementation keeps for a shadowed endpoint
    batch = []
    for i, e in enumerate(evs[:off + 1]):
        ev = e["ev"]
        if ev == "update":
            k = tuple(e["id"])
            cur[k] = e["name"]
            batch.append(("u", k))
        elif ev == "remove":
            k = tuple(e["id"])
            cur.pop(k, None)
            batch.append(("r", k))
        elif ev == "flush":
            if i == off:
                break
            touched = {k for _, k in batch}
            for k in list(shadow_copy):
                if k not in cur:
                    del shadow_copy[k]                       # removed: the copy is dropped
                elif _pref(cur, cur[k]) == k and k not in touched:
                    del shadow_copy[k]                       # promoted after the winner went away
            for k, n in cur.items():
                if _pref(cur, n) != k:
                    shadow_copy[k] = n                       # (re)shadowed: copy overwritten
            prev, batch = dict(cur), []
    touched = {k for _, k in batch}
    labels = set()
    for x, n in prev.items():
        winner = _pref(prev, n) == x
        others_prev = [y for y, m in prev.items() if m == n and y != x]
        if x in cur and cur[x] != n:
            if winner and any(m == n for y, m in cur.items() if y != x):
                labels.add("winner-renamed-away")
            if winner and _pref(cur, cur[x]) != x:
                labels.add("renamed-into-shadow")
        if x not in cur and winner:
            if any(y in touched for y in others_prev):
                labels.add("winner-removed+shadowed-op")
            if any(b != x and b in cur and m == n and prev.get(b) != n and _pref(prev, prev.get(b)) == b
                   for b, m in shadow_copy.items()):
                labels.add("stale-shadow-copy")
    return sorted(labels)


def signature(t_id, evs, kind, off):
    labels = root_cause_labels(evs, off)
    return "%s:%s" % (kind.rstrip("+"), "+".join(labels) if labels else "unclassified")


def nontrivial(evs):
    # the antecedent: at some flush two live endpoints claim the same interface name, or an endpoint has
    # changed its interface name
    live = {}
    renamed = False
    for e in evs:
        if e["ev"] == "update":
            k = tuple(e["id"])
            if k in live and live[k] != e["name"]:
                renamed = True
            live[k] = e["name"]
        elif e["ev"] == "remove":
            live.pop(tuple(e["id"]), None)
        elif e["ev"] == "flush":
            names = list(live.values())
            if renamed or len(names) != len(set(names)):
                return True
    return False


P = {
    "specdir": "epmgr",
    "design": [],
    "gens": [
        {"module": "Gen_EpMgr", "cfg": "Gen_words3.cfg", "thorough_cfg": "Gen_words4.cfg", "workers": 2,
         "max": 1500, "thorough_max": 60000, "timeout": 300, "thorough_timeout": 1500},
        {"module": "Gen_EpMgr", "cfg": "Gen_sim.cfg", "simulate": {"num": 150, "depth": 20},
         "thorough_simulate": {"num": 4000, "depth": 20}, "timeout": 300, "thorough_timeout": 900},
    ],
    "driver": {"overlay_pkg": PKG, "run": "^TestVerifMgrEpMgr$", "env": {"VERIF_REPS": "8"}},
    "rerun_env": {"VERIF_REPS": "24"},
    "n_random": (300, 5000),
    "trace": {"module": "T_EpMgr", "cfg": "T_EpMgr.cfg", "heap": "4g"},
    "chunk": 60000,
    "multi_reject": True,
    "signature": signature,
    "nontrivial": nontrivial,
    "rule": "TODO",
    "assumptions": [],
    "exhaustive": False,
}


def run(ctx):
    mgr_common.run_legs(ctx, P)


def selftest(ctx):
    return False


MANIFEST = dict(text="TODO", design_ref="3.6 C44", technique="TODO")
