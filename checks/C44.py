"""C44 - each workload interface carries exactly the state of its preferred endpoint
(felix/dataplane/linux/endpoint_mgr.go: resolveWorkloadEndpoints / wlIdsAscending)."""
import json
import os

from checks import mgr_common
from vlib import core

PKG = "felix/dataplane/linux"


def _pref(state, name):
    c = sorted(i for i, n in state.items() if n == name)
    return c[0] if c else None


def _batch_labels(prev, cur, touched, shadow_copy):
    labels = set()
    for x, n in prev.items():
        winner = _pref(prev, n) == x
        others_prev = [y for y, m in prev.items() if m == n and y != x]
        if x in cur and cur[x] != n:
            if winner and any(m == n for y, m in cur.items() if y != x):
                labels.add("winner-renamed-away")
            if winner and _pref(cur, cur[x]) != x:
                labels.add("renamed-into-shadow")
        if x not in cur and winner:
            if any(y in touched for y in others_prev):
                labels.add("winner-removed+shadowed-op")
            if any(b != x and (b in cur or b in prev) and m == n and prev.get(b) != n
                   for b, m in shadow_copy.items()):
                labels.add("stale-shadow-copy")
    return labels


def root_cause_labels(evs, off):
    """LABELS ONLY (used to key known findings; the verdict was already given by the TLA+ spec).
    Walk the told history up to the refused observation at evs[off] and name the situations, documented as
    root causes in notes/C44.md, that occur in the last batch (-> first result) or occurred in an earlier batch
    whose observation was still right but may have left corrupt hidden state (-> second result):
      winner-renamed-away        the preferred claimant of a contested name was updated to another name
      renamed-into-shadow        an endpoint that carried state on its name was updated to a name on which it
                                 is not the preferred claimant
      winner-removed+shadowed-op the preferred claimant of a contested name was removed in the same batch as
                                 an update/removal of another claimant of that name
      stale-shadow-copy          the preferred claimant of a name was removed while an endpoint that used to be
                                 shadowed on that name, and has since been updated away from it, still has its
                                 old shadowed copy inside the manager
    """
    cur, prev = {}, {}
    shadow_copy = {}            # id -> name of the copy the implementation keeps for a shadowed endpoint
    batch = []
    earlier = set()
    for i, e in enumerate(evs[:off + 1]):
        ev = e["ev"]
        if ev == "update":
            k = tuple(e["id"])
            cur[k] = e["name"]
            batch.append(("u", k))
        elif ev == "remove":
            k = tuple(e["id"])
            cur.pop(k, None)
            batch.append(("r", k))
        elif ev == "flush":
            touched = {k for _, k in batch}
            labels = _batch_labels(prev, cur, touched, shadow_copy)
            if i == off:
                return sorted(labels), sorted(earlier)
            earlier |= labels
            for k in list(shadow_copy):
                if k not in cur:
                    del shadow_copy[k]                       # removed: the copy is dropped
                elif shadow_copy[k] == cur[k] and _pref(cur, cur[k]) == k and k not in touched:
                    del shadow_copy[k]                       # promoted after the winner went away
            for k, n in cur.items():
                if _pref(cur, n) != k:
                    shadow_copy[k] = n                       # (re)shadowed: copy overwritten
            for k in touched:
                # displaced by a smaller id arriving in the same batch in which k itself moved away: depending on
                # the processing order k was shadowed on its old name for a moment and the copy survives
                n = prev.get(k)
                if n is not None and k in cur and cur[k] != n and any(j in touched and cur.get(j) == n and j < k for j in cur):
                    shadow_copy.setdefault(k, n)
            prev, batch = dict(cur), []
    return [], sorted(earlier)


LABEL_PRIORITY = ["winner-removed+shadowed-op", "stale-shadow-copy", "winner-renamed-away", "renamed-into-shadow"]


def signature(t_id, evs, kind, off):
    """root-cause:<label> when the batch before the refused observation contains one of the documented
    situations (the first in LABEL_PRIORITY); else unclassified:<kind of mismatch>."""
    now, _ = root_cause_labels(evs, off)
    for l in LABEL_PRIORITY:
        if l in now:
            return "root-cause:" + l
    return "unclassified:" + kind.rstrip("+")


def known_labels(pid="C44"):
    """the root-cause situations that are listed in known_findings.json (none once the code is repaired)"""
    return {l for l in LABEL_PRIORITY if core.known_match(pid, "root-cause:" + l)}


def truncate_at_known(traces, labels, stats):
    """A batch containing a situation that is a KNOWN finding may leave the manager's hidden maps wrong even
    when its own observation is still right, so nothing after it can be judged: every trace is cut after the
    first CompleteDeferredWork whose batch contains such a situation (that observation itself is still judged
    and, if refused, reported under the known finding).  Without known findings nothing is cut."""
    if not labels:
        return traces
    out = []
    for t, lines in traces:
        evs = [json.loads(x) for x in lines]
        cut = None
        for i, e in enumerate(evs):
            if e["ev"] == "flush" and set(root_cause_labels(evs, i)[0]) & labels:
                cut = i + 1
                break
        if cut is not None and cut < len(lines):
            stats["truncated"] = stats.get("truncated", 0) + 1
            stats["events_not_judged"] = stats.get("events_not_judged", 0) + len(lines) - cut
            lines = lines[:cut]
        out.append((t, lines))
    return out


def tree_is_repaired():
    try:
        return "promoteShadowed" in open(os.path.join(core.REPO, PKG, "endpoint_mgr.go")).read()
    except OSError:
        return False


def nontrivial(evs):
    # the antecedent: at some flush two live endpoints claim the same interface name, or an endpoint has
    # changed its interface name
    live = {}
    renamed = False
    for e in evs:
        if e["ev"] == "update":
            k = tuple(e["id"])
            if k in live and live[k] != e["name"]:
                renamed = True
            live[k] = e["name"]
        elif e["ev"] == "remove":
            live.pop(tuple(e["id"]), None)
        elif e["ev"] == "flush":
            names = list(live.values())
            if renamed or len(names) != len(set(names)):
                return True
    return False


P = {
    "specdir": "epmgr",
    "design": [{"module": "MC_I_EpMgr", "cfg": "MC_I_EpMgr_quick.cfg", "thorough_cfg": "MC_I_EpMgr_full.cfg",
                "workers": 4, "timeout": 300, "thorough_timeout": 1500}],
    "gens": [
        {"module": "Gen_EpMgr", "cfg": "Gen_words3.cfg", "thorough_cfg": "Gen_words4.cfg", "workers": 2,
         "max": 1200, "thorough_max": 20000, "timeout": 300, "thorough_timeout": 1500},
        {"module": "Gen_EpMgr", "cfg": "Gen_sim.cfg", "simulate": {"num": 150, "depth": 20},
         "thorough_simulate": {"num": 1500, "depth": 20}, "timeout": 300, "thorough_timeout": 900},
    ],
    "driver": {"overlay_pkg": PKG, "run": "^TestVerifMgrEpMgr$", "env": {"VERIF_REPS": "8"}},
    "rerun_env": {"VERIF_REPS": "24"},
    "rerun_envs": [{"VERIF_REPS": "24"}, {"VERIF_REPS": "400"}, {"VERIF_REPS": "2000"}],
    "n_random": (300, 2500),
    "trace": {"module": "T_EpMgr", "cfg": "T_EpMgr.cfg", "heap": "4g"},
    "chunk": 60000,
    "multi_reject": True,
    "selftest_allow_rejects": True,
    "signature": signature,
    "nontrivial": nontrivial,
    "rule": "behaviours = every word of 3 (thorough: 4) update/remove operations over 3 endpoint ids x 2 interface names x "
            "{up,down} with an optional CompleteDeferredWork after each operation (TLC, exhaustive; thinned by seed), TLC "
            "random walks of 16 operations over 4 ids x 3 names, and seeded random histories over 2-5 ids x 1-3 names with "
            "profile/address variants, interface oper-state noise, iptables and nftables renderers, IPv4 and IPv6; every "
            "trace with a multi-operation batch runs on 8 fresh managers in lock step (24 on re-execution) so that the "
            "pending-map iteration order varies, and every distinct outcome is validated; a trace is non-trivial when at "
            "some CompleteDeferredWork two live endpoints claim one interface name or an endpoint has changed its name",
    "assumptions": ["endpoint ids are compared as strings by the code and as digit triples by the spec: the driver only "
                    "uses single-digit components, for which both orders coincide",
                    "interface oper state, policies/tiers and host endpoints are not inputs of this property"],
    "exhaustive": False,
}


def run(ctx):
    P2 = dict(P)
    # the implementation-shaped model that matches the tree: the algorithm as found satisfies F only when no
    # endpoint changes its interface name and no batch races a removal with a co-claimant's own operation;
    # the repaired algorithm (hooks/fix-C44-shadowing.patch) satisfies it in every environment
    if tree_is_repaired():
        P2["design"] = [dict(P["design"][0], cfg="MC_I_EpMgr_fixed_quick.cfg", thorough_cfg="MC_I_EpMgr_fixed_full.cfg")]
    ctx.notes["implementation_model"] = "repaired (unrestricted environment)" if tree_is_repaired() else "as found (no renames, no batch races)"
    labels = known_labels(ctx.id)
    if labels:
        st = {}
        P2["preprocess"] = lambda traces: truncate_at_known(traces, labels, st)
        ctx.notes["known_root_causes_cut"] = st
    mgr_common.run_legs(ctx, P2)


def selftest(ctx):
    def first_simple(evs, pred):
        """index of the first flush satisfying pred that directly follows [reset, update]"""
        for i in range(2, len(evs)):
            if evs[i]["ev"] == "flush" and evs[i - 1]["ev"] == "update" and evs[i - 2]["ev"] == "reset" and pred(evs[i - 1], evs[i]):
                return i
        return None

    def drop_update(evs):
        i = first_simple(evs, lambda u, f: True)
        if i is not None:
            return evs[:i - 1] + evs[i:]

    def flip_admin_state(evs):
        i = first_simple(evs, lambda u, f: True)
        if i is not None:
            evs[i - 1]["up"] = not evs[i - 1]["up"]
            return evs

    def other_endpoints_profile(evs):
        i = first_simple(evs, lambda u, f: u["up"] and u["profiles"])
        if i is not None:
            for d in evs[i]["dps"]:
                for c in d["chains"]:
                    c["profiles"] = [x + "x" for x in c["profiles"]]
            return evs

    def lose_route(evs):
        i = first_simple(evs, lambda u, f: u["up"] and f["dps"][0]["routes"])
        if i is not None:
            for d in evs[i]["dps"]:
                d["routes"][0]["cidrs"] = d["routes"][0]["cidrs"][1:]
                if not d["routes"][0]["cidrs"]:
                    d["routes"] = d["routes"][1:]
            return evs

    def stale_chain(evs):
        i = first_simple(evs, lambda u, f: True)
        if i is not None:
            for d in evs[i]["dps"]:
                d["chains"].append({"chain": "cali-tw-calizz", "disabled": False, "profiles": []})
            return evs

    def lose_dispatch(evs):
        i = first_simple(evs, lambda u, f: f["dps"][0]["disp_to"])
        if i is not None:
            for d in evs[i]["dps"]:
                d["disp_to"] = d["disp_to"][1:]
            return evs

    def wrong_preference(evs):
        # swap the ids of two endpoints claiming one name (different content) before the flush that shows the winner
        for i in range(3, len(evs)):
            a, b, f = evs[i - 2], evs[i - 1], evs[i]
            if (evs[i - 3]["ev"] == "reset" and a["ev"] == "update" and b["ev"] == "update" and f["ev"] == "flush"
                    and a["name"] == b["name"] and a["id"] != b["id"] and (a["up"] or b["up"])
                    and (a["up"] != b["up"] or a["profiles"] != b["profiles"])):
                a["id"], b["id"] = b["id"], a["id"]
                return evs

    return mgr_common.multi_selftest(ctx, P, [
        ("drop_update", drop_update), ("flip_admin_state", flip_admin_state),
        ("other_endpoints_profile", other_endpoints_profile), ("lose_route", lose_route),
        ("stale_chain", stale_chain), ("lose_dispatch", lose_dispatch), ("wrong_preference", wrong_preference)],
        n_random=120)


MANIFEST = dict(
    text="EpMgr.tla defines F(current endpoint set): per interface name the chains, dispatch entries and routes of the "
         "preferred claimant (smallest id in (orchestrator, workload, endpoint) order), routes only when admin-up, nothing "
         "for unclaimed names. TLC checks an implementation-shaped model of resolveWorkloadEndpoints (all pending-map "
         "processing orders) against F, generates every update/remove word up to a bound plus random walks; an in-package "
         "overlay driver replays them on real endpointManagers (package mock tables/route table, recording dispatch maps, "
         "8 lock-step fresh managers per batch) and TLC validates the full mock state logged after every "
         "CompleteDeferredWork against F.",
    design_ref="3.6 C44",
    technique="TLA+ spec (EpMgr/I_EpMgr) + TLC; TLC-generated words replayed in-package (go test -overlay); trace "
              "validation with TLC",
)
