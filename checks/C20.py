"""C20 - IPAM allocations respect pools, uses, reservations and affinity limits."""
from vlib import pipeline
from . import _ipam
from .C19 import BASE

RULE = ("sequential histories (25-55 API calls) over random layouts: 1-3 pools from 4 (/28-/29 pools, /28-/31 blocks), disabled pools, "
        "allowedUses, node and namespace selectors, 0-3 reservations (single addresses, /31, /30, whole blocks), strict affinity, "
        "MaxBlocksPerHost 0-2 (global and per request), explicit pool requests, until exhaustion; one third of the layouts are "
        "reservation-centred (one permissive pool, 2-3 reservations each covering part of a different block, listed in random "
        "order, requests of 1-6 addresses that spill from a partly reserved block into the next); 12 directed strict-affinity "
        "schedules in which a block changes owner between a request's read and its write; plus TLC walks of I_IPAM with two "
        "pools (one selecting only h2), a reserved address, strict affinity and a cap of 1; non-trivial = some auto-assign succeeded "
        "and some auto-assign got fewer addresses than it asked for")


def run(ctx):
    design = [{"module": "MC_IPAM", "cfg": "MC_c20_quick.cfg", "thorough_cfg": "MC_c20.cfg", "workers": 4,
               "allow_zero": _ipam.ALLOW_ZERO, "timeout": 600, "thorough_timeout": 1700}]
    P, _ = _ipam.leg(ctx, BASE, "tlc-schedules+seeded-sequential", design=design,
              gen={"module": "Gen_IPAM", "cfg": "Gen_sim_c20.cfg", "simulate": {"num": 50, "depth": 120},
                   "thorough_simulate": {"num": 1500, "depth": 120}, "timeout": 600, "thorough_timeout": 1500},
              n_random=(50, 1200), mode="seq", nontrivial=_ipam.constrained_assign, rule=RULE)
    # the literal reading of the cap (all confirmed claims of the host, in whatever pool) is judged on the soft channel
    _ipam.handle_soft(ctx, P, kind="block-cap", classify=_ipam.classify_cap,
                      what="a host holds more confirmed affine blocks than the global MaxBlocksPerHost")
    if ctx.violations:
        return
    # directed gate schedules (Dir_IPAM family "c20", strict affinity): the block changes owner between a strict
    # auto-assign's read and its write (same-host release + foreign claim while the request is paused after loading
    # the block); the CAS-conflict retry must not take an address from the block that is now somebody else's
    _ipam.leg(ctx, BASE, "directed-strict-race",
              gen={"module": "Dir_IPAM", "cfg": "Dir_c20.cfg", "workers": 1, "timeout": 600},
              nontrivial=_ipam.overlapping, rule=RULE)


def selftest(ctx):
    P = dict(BASE)
    P.update({"driver": {"cmd": "ipam", "env": {"VERIF_MODE": "seq"}}, "trace": dict(_ipam.TRACE)})

    def first_assigned(evs):
        for e in evs:
            if e["ev"] == "ret" and e["op"] == "assign" and e["ips"]:
                return e

    def wrong_prefix(evs):         # the address comes back as a /32 instead of its block's CIDR
        e = first_assigned(evs)
        if e:
            e["ips"][0]["n"] = 32
            return evs

    def pool_disabled(evs):        # the pool the address came from was in fact disabled
        e = first_assigned(evs)
        if e:
            a = e["ips"][0]["a"]
            for p in evs[0]["pools"]:
                if p["cidr"]["a"][:3] == a[:3]:
                    p["disabled"] = True
            return evs

    def reserved(evs):             # the address was in fact reserved
        e = first_assigned(evs)
        if e:
            evs[0]["rsv"] = list(evs[0]["rsv"]) + [{"a": e["ips"][0]["a"], "n": 32}]
            return evs

    def wrong_use(evs):            # the pool does not allow the request's use
        e = first_assigned(evs)
        if e:
            a = e["ips"][0]["a"]
            for p in evs[0]["pools"]:
                if p["cidr"]["a"][:3] == a[:3]:
                    p["uses"] = ["LoadBalancer"]
            return evs

    def wrong_node(evs):           # the pool's node selector does not select the requesting node
        e = first_assigned(evs)
        if e:
            a = e["ips"][0]["a"]
            for p in evs[0]["pools"]:
                if p["cidr"]["a"][:3] == a[:3]:
                    p["nsel"] = {"op": "has", "k": "no-such-label"}
            for c in evs:
                if c["ev"] == "call" and c["op"] == "assign":
                    c["pools"] = []
            return evs

    return pipeline.corruption_selftest(ctx, P, _ipam.fresh([("wrong_prefix", wrong_prefix), ("pool_disabled", pool_disabled), ("reserved", reserved),
                                                 ("wrong_use", wrong_use), ("wrong_node", wrong_node)]), n_random=12)


MANIFEST = dict(
    text="Every address written by an auto-assign (and every address returned) is judged by TLC against the trace's pool layout: "
         "enabled pool allowing the request's use whose node and namespace selectors (Selectors!Eval on the real parser's exported AST) "
         "match, outside every reservation, returned with its block's prefix length; with strict affinity only from blocks affine to the "
         "requesting host; a newly confirmed claim keeps the host within min(global, per-request) MaxBlocksPerHost; I_IPAM with two "
         "pools / reservation / strict / cap is model-checked against the same rules.",
    design_ref="3.3 C20",
    technique="TLA+ (P_IPAM, I_IPAM, Selectors, Nets) + TLC; seeded layouts and histories on the real client; trace validation with TLC",
)
