"""C29 - Kubernetes NetworkPolicy keeps its Kubernetes meaning after conversion
(libcalico-go/lib/backend/k8s/conversion + syncersv1/updateprocessors).

Go-first rendering check (DESIGN 3.2): the driver harness/cmd/k8snp runs the REAL conversion on generated
clusters and NetworkPolicies and logs both sides syntactically; TLC (specs/k8snp) evaluates, for every probe
connection of every case,  K8sNP!Allowed(policies, conn) = CalicoPol!Allowed(converted policies, conn).
Cases: (A) all policies over a tiny vocabulary, enumerated by TLC (Gen_K8sNP) and replayed through the
converter; (B) seeded random clusters x policies.  The trace file is validated in parallel slices; a rejected
slice is handed to pipeline.validate_all (re-execution, replay directory, VIOLATION line).
"""
import concurrent.futures
import json
import os
import random
import re

from vlib import core, pipeline
from vlib.core import HarnessError, log

RAW = os.environ.get("VERIF_C29_UNDEFAULTED") == "1"     # see notes/C29.md: un-defaulted policyTypes

P = {
    "specdir": "k8snp",
    "driver": {"cmd": "k8snp", "env": {"VERIF_C29_UNDEFAULTED": "1" if RAW else "0"}},
    "trace": {"module": "T_K8sNP", "cfg": "T_K8sNP_raw.cfg" if RAW else "T_K8sNP.cfg", "timeout": 1500, "heap": "3g"},
    "rule": "cases = (A) every NetworkPolicy over a tiny vocabulary (3 pod selectors x policyTypes x one rule with <=2 of 7 "
            "peers and a sequence of <=1 (quick) / <=2 (thorough) of 8 port entries) enumerated by TLC, thinned by seed in the "
            "quick tier, on a fixed 3-pod cluster, and (B) seeded random clusters (3 namespaces, 5-7 pods with labels, named "
            "container ports, service accounts, 1 in 5 dual-stack) x 4 policy sets (1-2 NetworkPolicies: matchLabels / "
            "In / NotIn / Exists / DoesNotExist, every peer kind, ipBlock with 0-2 except, numeric / named / endPort ports, "
            "TCP / UDP / SCTP / unset, every policyTypes variant); evaluations = probe connections compared (all ordered "
            "pairs of pod / external / CIDR-edge addresses x probe ports x 3 protocols); a case is non-trivial when at "
            "least one pod is isolated by the policies; distinct = distinct case lines",
    "assumptions": [
        "NetworkPolicies are objects as the API server serves them: valid, and policyTypes filled in by defaulting "
        "(absent policyTypes together with egress rules is not judged; VERIF_C29_UNDEFAULTED=1 judges it as well)",
        "pod and namespace label keys do not use Calico's reserved prefixes (projectcalico.org/, pcns., pcsa.)",
        "ipBlock is evaluated on the peer address whatever it belongs to; a named port towards a destination that is "
        "not a pod is unspecified by Kubernetes and not judged",
        "Calico semantics of the model policy (CalicoPol.tla) = Felix's documented tier/profile evaluation; rendering "
        "of the model policy into dataplane programs is C08-C12's subject",
    ],
}


def signature(t_id, events, off, reason):
    return "%s:%s" % (reason, events[off].get("ev"))


def _generate(ctx):
    """TLC-enumerated small scope -> behaviours [[cluster, case, case ...], ...] (8 cases per trace)."""
    cfg = "Gen_K8sNP.cfg" if ctx.quick else "Gen_K8sNP_full.cfg"
    r = core.tlc("k8snp", "Gen_K8sNP", cfg, workers=1, timeout=600 if ctx.quick else 1800, heap="4g")
    if r.violated or r.error:
        raise HarnessError("generator spec problem: %s %s\n%s" % (r.violated, r.error, r.out[-2000:]))
    behs = r.behaviours
    if not behs:
        raise HarnessError("generator produced no behaviours:\n" + r.out[-2000:])
    total = len(behs)
    mx = 200 if ctx.quick else 16000
    rnd = random.Random(ctx.seed)
    if len(behs) > mx:
        behs = rnd.sample(behs, mx)
    groups = []
    for i in range(0, len(behs), 8):
        part = behs[i:i + 8]
        groups.append([part[0][0]] + [b[1] for b in part])
    ctx.notes["behaviours_from_tlc"] = {"enumerated": total, "replayed": len(behs), "cfg": cfg, "states": r.distinct}
    ctx.cov["states"] += r.distinct
    ctx.cov["transitions"] += r.generated
    ctx.sample({"behaviour": groups[0][:2]})
    log("generated %d policies (replaying %d)" % (total, len(behs)))
    return groups


def _behaviours_from_trace(path):
    groups = []
    for e in core.read_ndjson(path):
        if e["ev"] == "reset":
            groups.append([{"op": "cluster", "namespaces": e["namespaces"], "pods": e["pods"], "sas": e.get("sas", []),
                            "ext": e.get("ext", [])}])
        elif e["ev"] == "case" and groups:
            groups[-1].append({"op": "case", "nps": e["nps"], "nilMaps": bool(e.get("nilMaps", False))})
    if not groups:
        raise HarnessError("no trace to replay in " + path)
    return groups


STAT = re.compile(r'<<"C29_STAT", (\d+), (\d+), (\d+), (TRUE|FALSE)>>')


def _validate_slices(ctx, tspec, trace_path, nslices):
    traces = pipeline.split_traces(trace_path)
    events = sum(len(l) for _, l in traces)
    per = max(1, -(-events // nslices))
    slices, cur, n = [], [], 0
    for t in traces:
        cur.append(t)
        n += len(t[1])
        if n >= per:
            slices.append(cur)
            cur, n = [], 0
    if cur:
        slices.append(cur)
    paths = []
    for i, sl in enumerate(slices):
        p = os.path.join(ctx.work, "slice-%d.ndjson" % i)
        pipeline.write_traces(p, sl)
        paths.append(p)

    def one(p):
        return core.validate_trace(tspec["specdir"], tspec["module"], tspec["cfg"], p, workers=1,
                                   timeout=tspec["timeout"], heap=tspec["heap"])

    with concurrent.futures.ThreadPoolExecutor(max_workers=4) as ex:
        results = list(ex.map(one, paths))
    return traces, events, paths, results


def run(ctx):
    tspec = dict(P["trace"])
    tspec["specdir"] = P["specdir"]
    beh_path = None
    if not ctx.replay:
        # design leg: the two reference semantics agree through a TLA+ model of the conversion (I_Conv) on the
        # whole small scope; also cross-checks the memoised form of the property against the plain form
        cfg = "MC_I_Conv_quick.cfg" if ctx.quick else "MC_I_Conv.cfg"
        r = core.design_check("k8snp", "I_Conv", cfg, workers=4, timeout=600 if ctx.quick else 2400, coverage=False, heap="4g")
        if "C29_SPECBUG" in r.out or "C29_DIFF" in r.out:
            raise HarnessError("design leg: specifications disagree:\n" + r.out[-3000:])
        ctx.add_design(r)
        log("design I_Conv/%s: %d policies, %.1fs" % (cfg, r.distinct, r.wall))
    if ctx.replay:
        # re-execute the recorded inputs: the Kubernetes side of a recorded trace is a complete behaviour
        groups = _behaviours_from_trace(os.path.join(ctx.replay, "trace.ndjson"))
        n_random = 0
    else:
        groups = _generate(ctx)
        n_random = 50 if ctx.quick else 600
    beh_path = os.path.join(ctx.work, "behaviours.json")
    json.dump(groups, open(beh_path, "w"))
    trace_path = os.path.join(ctx.work, "trace.ndjson")
    pipeline.run_driver(ctx, P["driver"], beh_path, trace_path, n_random)

    def rerun():
        p2 = os.path.join(ctx.work, "trace-rerun.ndjson")
        pipeline.run_driver(ctx, P["driver"], beh_path, p2, n_random)
        return p2

    traces, events, paths, results = _validate_slices(ctx, tspec, trace_path, 4 if ctx.quick else 16)
    cases = conns = nontrivial = unjudged = 0
    tlc_wall = 0.0
    rejected = []
    for p, tr in zip(paths, results):
        if "C29_SPECBUG" in tr.out:
            raise HarnessError("the memoised and the plain form of the specification disagree (specs/k8snp):\n" +
                               "\n".join(l for l in tr.out.splitlines() if "C29_SPECBUG" in l)[:2000])
        tlc_wall += tr.wall
        for m in STAT.finditer(tr.out):
            cases += 1
            conns += int(m.group(2))
            if m.group(4) != "TRUE":
                unjudged += 1
            elif int(m.group(3)) > 0:
                nontrivial += 1
        if not tr.accepted:
            rejected.append(p)
            m = re.search(r'<<\s*"C29_DIFF",.*?>>\s*$', tr.out, re.S | re.M)
            if m:
                log("first disagreement in %s: %s" % (os.path.basename(p), " ".join(m.group(0).split())[:600]))
    if unjudged:
        raise HarnessError("%d generated cases are outside the judged domain (generator produced invalid objects)" % unjudged)
    stats_rej = []
    for p in rejected:
        if ctx.violations >= 2:
            break       # enough reported; the remaining rejected slices would only repeat it
        tspec2 = dict(tspec)
        tspec2["beh_path"] = beh_path or ""
        st = pipeline.validate_all(ctx, tspec2, p, signature, rerun)
        stats_rej += st["rejected"]
    seen = set()
    for _, lines in traces:
        for x in lines:
            e = json.loads(x)
            if e.get("ev") == "case":
                e.pop("t", None)
                seen.add(json.dumps(e, sort_keys=True))
    ctx.cov["traces_validated_against_impl"] += len(traces)
    ctx.cov["evaluations"] += conns
    ctx.cov["distinct_nontrivial"] += nontrivial
    ctx.cov["rule"] = P["rule"]
    ctx.cov["exhaustive"] = False
    ctx.notes["trace_validation"] = {"traces": len(traces), "events": events, "cases": cases, "distinct_cases": len(seen),
                                     "connections_compared": conns, "nontrivial_cases": nontrivial,
                                     "tlc_wall_s": round(tlc_wall, 1), "rejected": stats_rej}
    ctx.notes["exhaustive_note"] = ("the small scope is enumerated completely by TLC (3924 / 31764 policies) and replayed "
                                    "thinned by seed (200 quick / 16000 thorough); the random leg is a sample")
    if len(traces) > 1:
        t_id, lines = traces[-1]
        ev = json.loads(lines[1]) if len(lines) > 1 else {}
        ctx.sample({"trace": t_id, "nps": ev.get("nps"), "pols": [{"selText": q.get("selText"), "types": q.get("types")} for q in ev.get("pols", []) if isinstance(q, dict)]})
    ctx.assumptions += P["assumptions"]
    log("C29: %d cases, %d connections compared, %d non-trivial, TLC %.0fs" % (cases, conns, nontrivial, tlc_wall))


# ---- binding self-test ----------------------------------------------------------------------------------

def _cases(evs):
    return [e for e in evs if e["ev"] == "case"]


def selftest(ctx):
    def drop_reset(evs):
        # drop one event: the second trace loses its cluster
        idx = [i for i, e in enumerate(evs) if e["ev"] == "reset"]
        return evs[:idx[1]] + evs[idx[1] + 1:] if len(idx) > 1 else None

    def lose_except(evs):
        hit = False
        for e in _cases(evs):
            for p in e["pols"]:
                for r in p.get("inb", []) + p.get("outb", []):
                    if r["notSrcNets"] or r["notDstNets"]:
                        r["notSrcNets"], r["notDstNets"] = [], []
                        hit = True
        return evs if hit else None

    def widen_range(evs):
        hit = False
        for e in _cases(evs):
            for p in e["pols"]:
                for r in p.get("inb", []) + p.get("outb", []):
                    for x in r["dstPorts"]:
                        if "hi" in x and x["hi"] < 65535:
                            x["hi"] += 1
                            hit = True
        return evs if hit else None

    def drop_egress_type(evs):
        hit = False
        for e in _cases(evs):
            for p in e["pols"]:
                if "egress" in p.get("types", []):
                    p["types"] = ["ingress"]
                    hit = True
        return evs if hit else None

    def relabel_pods(evs):
        # flip a field on the Kubernetes side: every pod loses its labels (the endpoints keep theirs)
        for e in evs:
            if e["ev"] == "reset":
                for p in e["pods"]:
                    p["labels"] = {}
        return evs

    def named_port_moves(evs):
        hit = False
        for e in evs:
            if e["ev"] == "reset":
                for ep in e["eps"]:
                    for p in ep.get("ports", []):
                        p["port"] += 1
                        hit = True
        return evs if hit else None

    return pipeline.corruption_selftest(ctx, P, [("drop_reset", drop_reset), ("lose_except", lose_except),
                                                 ("widen_range", widen_range), ("drop_egress_type", drop_egress_type),
                                                 ("relabel_pods", relabel_pods), ("named_port_moves", named_port_moves)],
                                        n_random=12)


MANIFEST = dict(
    text="The real converter (K8sNetworkPolicyToCalico, pod->WorkloadEndpoint, namespace/serviceaccount->profile) and the "
         "real v3->model update processors are run on TLC-enumerated (all policies over a tiny vocabulary) and seeded random "
         "clusters and NetworkPolicies; both sides are exported syntactically (selectors as the real parser's AST) and TLC "
         "checks, for every probe connection (all pod / external / CIDR-edge address pairs x edge ports x TCP/UDP/SCTP), "
         "that the Kubernetes reference semantics (K8sNP.tla, written from the API documentation) and the Calico reference "
         "semantics of the converted model policy (CalicoPol.tla: effective labels with profile inheritance, first-match, "
         "end-of-tier deny, profile default) give the same verdict.",
    design_ref="3.2 C29",
    technique="TLA+ reference semantics (K8sNP / CalicoPol) + TLC evaluation of every probe connection; TLC-enumerated small "
              "scope replayed through the real converter; seeded differential cases; trace validation with TLC",
)
