"""C37 - length-limited kernel object names never collide (libcalico-go/lib/hash GetLengthLimitedID,
felix/rules chain names, felix/ipsets set names).  Collision resistance of the truncated hashes is ASSUMED."""
import copy
import json
import os

from vlib import core, pipeline

SKIP_NFT_LONG = os.environ.get("VERIF_C37_SKIP_NFT_LONG") == "1"


def signature(t_id, events, off, reason):
    e = events[off]
    kind = str(e.get("id", "")).split("|")[0]
    if e.get("panic"):
        return "panic:%s:%s" % (e.get("dom"), kind)
    return "%s:%s:%s:%s" % (reason, e.get("ev"), str(e.get("dom", "")).split(":")[0], kind)


def nontrivial(evs):
    # the antecedent: a name space in which some identity had to be shortened (name has the limit's length and
    # differs from prefix+identity) next to identities named verbatim, and some identity named twice
    names = [e for e in evs if e["ev"] == "name" and not e["panic"]]
    shortened = any(e["scheme"] and len(e["chars"]) != len(e["pre"]) + len(e["suf"]) for e in names)
    verbatim = any(e["scheme"] and len(e["chars"]) == len(e["pre"]) + len(e["suf"]) for e in names)
    ids = [(e["dom"], e["id"]) for e in names]
    return shortened and verbatim and len(ids) != len(set(ids))


BASE = {
    "specdir": "names",
    "driver": {"cmd": "names"},
    "trace": {"module": "T_Names", "cfg": "T_Names.cfg", "heap": "4g", "timeout": 1500},
    "chunk": 40000,
    "signature": signature,
    "nontrivial": nontrivial,
    "rule": "behaviours = for each prefix of the generator EVERY identity head+filler+tail (head 0-2, tail 0-3 characters over "
            "{_, a} (quick; {_, a, -} thorough), 12 filler characters, limit = len(prefix)+15: lengths on both sides of the limit, "
            "marker-led or not, 14 characters left for the hash), named by the real GetLengthLimitedID and again in reverse order "
            "by EndpointChainName in one name space; seeded traces per dataplane (iptables limit 28, nftables limit 256): "
            "PolicyChainName for all 7 policy kinds x namespaces x name lengths around the limit (common stems and random names), "
            "ProfileChainName (plain, kns.-style, marker-led), EndpointChainName for 8 chain prefixes x interface names, "
            "identities spelling the tail of names already produced (an identity that looks like a shortened name), "
            "PolicyGroup.ChainName (selectors x directions x policy lists and their reversals), NameForMainIPSet for the "
            "well-known set ids and ids made by the real MakeUniqueID (selector / named port / service), v4 and v6; a sample "
            "of identities is named again later in another order; non-trivial = a name space with shortened and verbatim "
            "names and a repeated identity",
    "assumptions": ["ASSUMED, not decided: collision resistance of the truncated SHA-256 / SHA3-224 / SHA-224 digests",
                    "identities are non-empty (GetLengthLimitedID maps the empty suffix to the marker, the same name as suffix '_')",
                    "policy names / namespaces do not contain '/', so PolicyID.ID() is injective",
                    "IP set ids are the well-known constants or MakeUniqueID outputs, as the calculation graph makes them",
                    "limits: 28 (iptables chain), 256 (nftables chain, knftables.NameLengthMax), 31 (ipset)"],
    "exhaustive": False,
}


def drift(ctx, stats):
    """Implementation-shaped comparison (never a verdict): verbatim/shortened branch exactly as in the scheme."""
    tp = os.path.join(ctx.work, "trace.ndjson")
    if not os.path.exists(tp):
        return
    bad = {r["trace"] for r in stats.get("rejected", [])}
    traces = [t for t in pipeline.split_traces(tp) if t[0] not in bad]
    if not traces:
        return
    fp = os.path.join(ctx.work, "trace-accepted.ndjson")
    pipeline.write_traces(fp, traces)
    tr = core.validate_trace("names", "T_Names", "T_Names_exact.cfg", fp, heap="4g", timeout=1500)
    d = ctx.notes.setdefault("drift", [])
    if not tr.accepted:
        d.append({"line": tr.hwm, "event": str(tr.bad_line)[:300]})
        core.log("drift: a real name differs from the scheme's branch at line %d: %s" % (tr.hwm, str(tr.bad_line)[:300]))
    ctx.notes["scheme_branch_checked"] = True


def run(ctx):
    D = {"workers": 4, "heap": "4g"}
    design = [dict(D, module="MC_Names", cfg="MC_Names_quick.cfg", thorough_cfg="MC_Names.cfg")]
    if not ctx.quick:
        design.append(dict(D, module="MC_Names", cfg="MC_Names_long.cfg"))
    P = dict(BASE, design=design,
             gen={"module": "Gen_Names", "cfg": "Gen_q.cfg", "thorough_cfg": "Gen_t.cfg", "workers": 1},
             n_random=(1, 8))
    if SKIP_NFT_LONG:
        P["driver"] = {"cmd": "names", "env": {"VERIF_C37_SKIP_NFT_LONG": "1"}}
        ctx.notes["nft_long_identities"] = "SKIPPED (VERIF_C37_SKIP_NFT_LONG=1)"
    stats = pipeline.standard_check(ctx, P)
    drift(ctx, stats)


def _fresh(fn):
    return lambda evs: fn(copy.deepcopy(evs))


def selftest(ctx):
    P = dict(BASE, design=[], gen=None, n_random=(1, 1),
             driver={"cmd": "names", "env": {"VERIF_C37_SKIP_NFT_LONG": "1"}})

    def names(evs):
        return [e for e in evs if e["ev"] == "name"]

    def too_long(evs):
        for e in names(evs):
            if e["dom"] == "ipt" and len(e["chars"]) == 28:
                e["name"] += "x"
                e["chars"].append(120)
                return evs

    def collision(evs):
        first = names(evs)[0]
        for e in names(evs)[1:]:
            if e["dom"] == first["dom"] and e["id"] != first["id"]:
                e["name"], e["chars"] = first["name"], list(first["chars"])
                return evs

    def unstable(evs):
        seen = {}
        for e in names(evs):
            k = (e["dom"], e["id"])
            if k in seen:
                e["name"] = e["name"][:-1] + ("A" if not e["name"].endswith("A") else "B")
                e["chars"][-1] = ord(e["name"][-1])
                return evs
            seen[k] = True

    def ipset_collision(evs):
        sets = [e for e in names(evs) if e["dom"] == "ipset"]
        if len(sets) > 5:
            sets[5]["name"], sets[5]["chars"] = sets[0]["name"], list(sets[0]["chars"])
            return evs

    def panicked(evs):
        e = names(evs)[3]
        e["panic"], e["name"], e["chars"] = True, "", []
        return evs

    def ipset_too_long(evs):
        for e in names(evs):
            if e["dom"] == "ipset":
                e["name"] += "0" * 24
                e["chars"] += [48] * 24
                return evs

    return pipeline.corruption_selftest(ctx, P, [(n, _fresh(f)) for n, f in [
        ("too_long", too_long), ("collision", collision), ("unstable", unstable), ("ipset_collision", ipset_collision),
        ("panicked", panicked), ("ipset_too_long", ipset_too_long)]], n_random=1)


MANIFEST = dict(
    text="Property layer Names: within one name space (chains of a table, the ipset list) every produced name fits the kernel "
         "limit (28 iptables chain, 256 nftables chain, 31 ipset - constants of the spec), the same identity always gets the same "
         "name and distinct identities get distinct names. TLC proves for the naming SCHEME (verbatim / prefix+marker+hash, hash "
         "an abstract injective function) that no two distinct non-empty suffixes over a small alphabet can collide on either "
         "side of the limit. The real GetLengthLimitedID, PolicyChainName (all kinds/namespaces), ProfileChainName, "
         "EndpointChainName, PolicyGroup.ChainName and NameForMainIPSet are run on TLC's suffixes and on generated near-limit, "
         "marker-led and name-spelling identities; TLC validates every recorded name. Hash collision resistance is assumed.",
    design_ref="3.8 C37",
    technique="TLA+ specs (Names/MC_Names) + TLC; TLC-generated identities replayed; trace validation with TLC",
)
