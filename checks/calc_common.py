"""Shared plumbing of the calculation-graph checks C01 C02 C03 C05 C43 and c04_graph (one spec directory
specs/calcgraph, one driver harness/cmd/calcgraph, different projections of the same traces).

Every check = standard_check runs over (TLC behaviours of Gen_CalcEnv bound to catalogue keys by seed) +
(seeded random delivery histories of the driver), validated by T_Calc with the check's own cfg (CONSTANT Checks).
Verdicts come only from TLC evaluating P_Calc on traces of the real pipeline.
"""
import json
import os
import re

from vlib import core, pipeline

SPECDIR = "calcgraph"
ALL_UNIVERSES = ["policy", "order", "ipsets", "ipsets-nft", "routes", "routes6"]


def export_catalogue(ctx):
    """catalogue.json = the driver's own value table projected for TLC (calcgraph -export)."""
    path = os.path.join(ctx.work, "catalogue.json")
    if not os.path.exists(path):
        binp = core.go_build("calcgraph")
        core.run([binp, "-export", path], env=core.goenv(), timeout=300)
    return path


def _bad_reason(ctx, cfg):
    """the <<"BAD", reason, line>> T_Calc printed in the last kept validation run"""
    p = os.path.join(ctx.work, "tlc-T_Calc-%s.out" % os.path.basename(cfg))
    try:
        out = open(p).read()
    except OSError:
        return ""
    m = re.findall(r'<<"BAD", "([^"]*)", \d+>>', out)
    return m[-1] if m else ""


def _fold(msgs):
    d = {c: {} for c in ("ipsets", "policies", "profiles", "weps", "heps", "vteps", "routes", "other")}
    comp = {"ipset": "ipsets", "policy": "policies", "profile": "profiles", "wep": "weps", "hep": "heps", "vtep": "vteps", "route": "routes"}
    for m in msgs:
        k, i, b = m["kind"], m["id"], m.get("body") or {}
        if k == "ipset_update":
            d["ipsets"][i] = {"members": sorted(x["s"] for x in b["members"])}
        elif k == "ipset_delta":
            s = set(d["ipsets"].get(i, {}).get("members", []))
            s -= {x["s"] for x in b["removed"]}
            s |= {x["s"] for x in b["added"]}
            d["ipsets"][i] = {"members": sorted(s)}
        elif k == "other_set":
            d["other"][m["comp"] + "|" + i] = b
        elif k == "other_del":
            d["other"].pop(m["comp"] + "|" + i, None)
        elif k in ("insync", "notready"):
            continue
        else:
            c, op = k.rsplit("_", 1)
            if op == "update":
                d[comp[c]][i] = b
            else:
                d[comp[c]].pop(i, None)
    return d


def _field_diff(a, b, prefix=""):
    out = set()
    if isinstance(a, dict) and isinstance(b, dict):
        for k in set(a) | set(b):
            if a.get(k) != b.get(k):
                out |= _field_diff(a.get(k), b.get(k), prefix + k + ".")
    elif isinstance(a, list) and isinstance(b, list) and len(a) == len(b):
        for x, y in zip(a, b):
            if x != y:
                out |= _field_diff(x, y, prefix)
    else:
        out.add(prefix.rstrip("."))
    return out


def fresh_diff_signature(events, off):
    """Naming only (never a verdict): which fields differ between the folded main stream and the fresh oracle."""
    if off >= len(events) or events[off].get("ev") != "fresh":
        return ""
    main = _fold([e["m"] for e in events[:off] if e["ev"] == "emit"])
    fresh = _fold(events[off]["msgs"])
    fields = set()
    comps = set()
    for c in main:
        for k in set(main[c]) | set(fresh[c]):
            a, b = main[c].get(k), fresh[c].get(k)
            if a == b:
                continue
            comps.add(c)
            if a is None or b is None:
                fields.add("presence")
                continue
            ra = json.loads(a["raw"]) if a.get("raw") else a
            rb = json.loads(b["raw"]) if b.get("raw") else b
            fields |= _field_diff(ra, rb)
    if comps == {"routes"} and fields <= {"borrowed", "types"}:
        return "routes:block-derived-flags"
    if comps <= {"weps", "heps"} and fields == {"tiers.default_action"}:
        return "endpoint:stale-tier-default-action"
    return "+".join(sorted(comps)) + ":" + "+".join(sorted(fields))


def make_signature(ctx, cfg):
    def signature(t_id, events, off, reason):
        bad = _bad_reason(ctx, cfg) or reason
        if bad.startswith("differs-from-fresh"):
            d = fresh_diff_signature(events, off)
            if d:
                return "differs-from-fresh:" + d
        return bad
    return signature


def kinds(evs):
    return {e["m"]["kind"] for e in evs if e["ev"] == "emit"}


def make_P(ctx, cfg, universes, nontrivial, rule, quick_beh=150, thorough_beh=3000, n_random=(100, 3000),
           design=True, env=None, gen="cover", assumptions=()):
    cat = export_catalogue(ctx)
    denv = {"VERIF_UNIVERSES": ",".join(universes)}
    if not (env or {}).get("VERIF_MODE"):
        # minimal reproductions of defects this machinery found (now fixed in /repo): kept so that a regression is reported
        denv["VERIF_SCRIPT"] = os.path.join(core.HARNESS, "cmd", "calcgraph", "regress.json")
    denv.update(env or {})
    if gen == "cover":
        g = {"module": "Gen_CalcEnv", "cfg": "Gen_cover.cfg", "thorough_cfg": "Gen_cover3.cfg", "workers": 1,
             "max": quick_beh, "thorough_max": thorough_beh, "timeout": 900, "thorough_timeout": 2400}
    elif gen == "sim":
        g = {"module": "Gen_CalcEnv", "cfg": "Gen_sim.cfg", "simulate": {"num": quick_beh, "depth": 45},
             "thorough_simulate": {"num": thorough_beh, "depth": 45}, "timeout": 900, "thorough_timeout": 2400}
    elif gen == "win":
        # flush windows of 2-4 deliveries over 3 abstract keys, bound to groups of related catalogue keys
        g = {"module": "Gen_CalcEnv", "cfg": "Gen_win.cfg", "simulate": {"num": quick_beh, "depth": 65},
             "thorough_simulate": {"num": thorough_beh, "depth": 65}, "timeout": 900, "thorough_timeout": 2400}
        denv["VERIF_BIND"] = "groups"
    else:
        g = None
    return {
        "specdir": SPECDIR,
        "design": [{"module": "I_CalcEnv", "cfg": "MC_I_CalcEnv_quick.cfg", "thorough_cfg": "MC_I_CalcEnv.cfg", "workers": 4,
                    "timeout": 900, "thorough_timeout": 2400, "heap": "4g"}] if design else [],
        "gen": g,
        "driver": {"cmd": "calcgraph", "env": denv},
        "n_random": n_random,
        "trace": {"module": "T_Calc", "cfg": cfg, "extra_files": {"catalogue.json": cat}, "timeout": 1800, "heap": "4g"},
        "chunk": 12000,
        "signature": make_signature(ctx, cfg),
        "nontrivial": nontrivial,
        "rule": rule,
        "assumptions": ["finite catalogue universes (harness/cmd/calcgraph/catalogue.go): %s" % ", ".join(universes),
                        "synchronous wiring ValidationFilter -> CalcGraph -> EventSequencer as in felix/calc/calc_graph_fv_test.go "
                        "(BPFEnabled, VXLAN enabled); flush points are chosen by the behaviour"] + list(assumptions),
        "exhaustive": False,
    }


# ---- corruptions for the binding self-tests ---------------------------------------------------------------

def drop_emit(kind):
    def f(evs):
        for i, e in enumerate(evs):
            if e["ev"] == "emit" and e["m"]["kind"] == kind:
                return evs[:i] + evs[i + 1:]
    return f


def selftest(ctx, P, corruptions, n_random=40):
    import copy

    def isolated(fn):       # corruptions edit nested records: give each one its own deep copy of the recorded events
        return lambda evs: fn(copy.deepcopy(evs))
    return pipeline.corruption_selftest(ctx, P, [(n, isolated(f)) for n, f in corruptions], n_random=n_random)
