"""C18 - desired-versus-actual tracking always reports the exact difference (felix/deltatracker)."""
from vlib import pipeline


def signature(t_id, events, off, reason):
    e = events[off]
    return "%s:%s" % (reason, e.get("ev"))


def nontrivial(evs):
    # a trace is non-trivial when some observation shows both a pending update and a pending deletion,
    # or it exercises an iteration callback / failed replace
    kinds = {e["ev"] for e in evs}
    both = any(e["ev"] == "obs" and e["pu"] and e["pd"] for e in evs)
    return both or bool(kinds & {"cb_upd", "cb_del", "dp_replace_err"})


P = {
    "specdir": "delta",
    "design": [{"module": "I_Delta", "cfg": "MC_I_Delta_quick.cfg", "thorough_cfg": "MC_I_Delta.cfg"}],
    "gen": {"module": "Gen_Delta", "cfg": "Gen_cover.cfg", "thorough_cfg": "Gen_cover3.cfg", "workers": 1,
            "max": 1500, "thorough_max": 40000},
    "driver": {"cmd": "delta"},
    "n_random": (300, 6000),
    "trace": {"module": "T_Delta", "cfg": "T_Delta.cfg"},
    "chunk": 250000,
    "signature": signature,
    "nontrivial": nontrivial,
    "rule": "behaviours = one per transition of the abstract (desired,dataplane) state graph (TLC, VIEW + "
            "ACTION_CONSTRAINT) thinned by seed in quick tier, plus seeded random op sequences over 2-8 keys (and a few over 140 keys to cross IterBatched's batch size) with "
            "nested mutation during iteration, batched iteration and failing ReplaceAllIter; a trace is "
            "non-trivial if it has an iteration callback, a failed replace, or an observation with both "
            "pending updates and pending deletions; distinct = distinct event sequences",
    "assumptions": ["values are immutable ints compared with the default reflect.DeepEqual",
                    "a callback never mutates the key it is being called for (documented as unsafe)"],
    "exhaustive": False,
}


def run(ctx):
    pipeline.standard_check(ctx, P)
    # second generator: long random walks from TLC (-simulate)
    if not ctx.replay and not ctx.violations:
        P2 = dict(P)
        P2["design"] = []
        P2["gen"] = {"module": "Gen_Delta", "cfg": "Gen_sim.cfg", "simulate": {"num": 100, "depth": 30},
                     "thorough_simulate": {"num": 3000, "depth": 30}}
        P2["n_random"] = (0, 0)
        pipeline.standard_check(ctx, P2)
        # third leg: few traces over 140 keys so that IterBatched crosses its batch size of 128
        P3 = dict(P)
        P3["design"] = []
        P3["gen"] = None
        P3["driver"] = {"cmd": "delta", "env": {"VERIF_BIG": "1"}}
        P3["n_random"] = (3, 40)
        pipeline.standard_check(ctx, P3)
    # fourth leg: felix/cachingmap.CachingMap (a DeltaTracker bound to a real map) - spec CMap
    if not ctx.replay and not ctx.violations:
        pipeline.standard_check(ctx, PC)


def cmap_nontrivial(evs):
    # exercises a failed dataplane write, an ENOENT delete, a failed load or an out-of-band edit
    return any((e["ev"] == "dp_update" and not e["ok"]) or (e["ev"] == "dp_delete" and e["res"] != "ok")
               or (e["ev"] == "dp_load" and not e["ok"]) or e["ev"] == "ext" for e in evs)


PC = {
    "specdir": "delta",
    "design": [{"module": "CMap", "cfg": "MC_CMap.cfg", "workers": 4}],
    "gen": {"module": "Gen_CMap", "cfg": "Gen_CMap_cover.cfg", "workers": 1, "max": 1200, "thorough_max": 17000},
    "driver": {"cmd": "cmap"},
    "n_random": (200, 4000),
    "trace": {"module": "T_CMap", "cfg": "T_CMap.cfg"},
    "chunk": 250000,
    "signature": signature,
    "nontrivial": cmap_nontrivial,
    "rule": P["rule"] + "; CachingMap leg: one behaviour per transition of the (desired, cache, real, loaded) graph with "
            "fault plans (failing Update/Delete per key, failing Load, out-of-band edits), each run on the plain and "
            "the batched dataplane-map API, plus seeded random sequences",
    "assumptions": P["assumptions"],
}


def selftest(ctx):
    def drop_call(evs):
        for i, e in enumerate(evs):
            if e["ev"] == "des_set" and i > 5:
                return evs[:i] + evs[i + 1:]

    def flip_value(evs):
        for e in evs:
            if e["ev"] == "obs" and e["desired"]:
                k = sorted(e["desired"])[0]
                e["desired"][k] = e["desired"][k] % 9 + 1
                return evs

    def lose_pending(evs):
        for e in evs:
            if e["ev"] == "obs" and e["pd"]:
                e["pd"] = e["pd"][1:]
                return evs

    return pipeline.corruption_selftest(ctx, P, [("drop_call", drop_call), ("flip_value", flip_value), ("lose_pending", lose_pending)])


MANIFEST = dict(
    text="TLC checks exhaustively (3 keys x 2 values) that the three-map implementation design (I_Delta) refines "
         "the two-map property spec (Delta); every transition of the abstract state graph is replayed on the real "
         "DeltaTracker (leg A) and every recorded call + observation of the four views is validated by TLC "
         "against Delta (leg B), plus seeded random sequences with mutation during iteration, batched iteration "
         "and failing ReplaceAllIter.",
    design_ref="3.5 C18",
    technique="TLA+ spec (Delta/I_Delta) + TLC; TLC-generated behaviours replayed; trace validation with TLC",
)
