"""Graph-level half of C04 (IP set contents equal the addresses selected by the rule), for checks/C04.py to call.

run_graph_level(ctx): delivery histories over the `ipsets` / `ipsets-nft` universes (shared IPs between endpoints, nested and
duplicate CIDRs, a /0 network set, named ports with mixed protocols, labels inherited from profiles; without and with overlap
suppression) are replayed on the real ValidationFilter -> CalcGraph -> EventSequencer pipeline; at every in-sync flush TLC
(P_Calc!C04Bad) requires: the emitted IP sets are exactly those referenced by the emitted rules; every set's members cover
exactly the addresses of the endpoints / network sets whose effective labels match the set's selector (named-port sets: exactly
the (address, protocol, port) triples of matching endpoints' named ports); each member once; with suppression on, no member
inside another.  C02's delta soundness is checked on the same traces (T_C04.cfg judges "c04" only; use T_all.cfg for both).
"""
from vlib import pipeline
from checks import calc_common as cc

CFG = "T_C04.cfg"
UNIVERSES = ["ipsets", "ipsets-nft", "policy"]


def nontrivial(evs):
    # some IP set with at least one member reached the dataplane and was later changed or removed
    ks = cc.kinds(evs)
    has_members = any(e["ev"] == "emit" and e["m"]["kind"] == "ipset_update" and e["m"]["body"]["members"] for e in evs)
    return has_members or "ipset_delta" in ks


RULE = ("TLC behaviours of Gen_CalcEnv (environment transition cover) bound by seed to keys of the ipsets, ipsets-nft and policy "
        "universes + seeded random histories; membership judged at every in-sync flush against selector semantics (Selectors.tla) and "
        "prefix arithmetic (Nets.tla: address-coverage equality, no nested members under suppression); a trace is non-trivial if an "
        "IP set with members was emitted or changed by delta")


def make_P(ctx, design=False):
    return cc.make_P(ctx, CFG, UNIVERSES, nontrivial, RULE, design=design, env={"VERIF_FRESH": "none"},
                     quick_beh=120, thorough_beh=2000, n_random=(120, 2000),
                     assumptions=["no two profiles of one endpoint carry the same label name in the catalogue (the statement does not order parents)"])


def run_graph_level(ctx):
    """Runs the graph-level C04 leg; violations are reported through ctx like any standard_check. Returns the stats dict."""
    return pipeline.standard_check(ctx, make_P(ctx))


def selftest_graph_level(ctx):
    P = make_P(ctx)

    def lose_member(evs):       # a member silently missing from a full update
        for e in evs:
            if e["ev"] == "emit" and e["m"]["kind"] == "ipset_update" and len(e["m"]["body"]["members"]) >= 1:
                e["m"]["body"]["members"] = e["m"]["body"]["members"][1:]
                e["m"]["body"]["n"] -= 1
                return evs

    def extra_member(evs):      # an address nobody selected
        for e in evs:
            if e["ev"] == "emit" and e["m"]["kind"] == "ipset_update" and e["m"]["body"]["typ"] == "net":
                e["m"]["body"]["members"] = e["m"]["body"]["members"] + [{"s": "99.9.9.9/32", "a": [99, 9, 9, 9], "n": 32, "proto": "", "port": 0}]
                e["m"]["body"]["n"] += 1
                return evs

    def drop_delta(evs):
        return cc.drop_emit("ipset_delta")(evs)

    def rewire_rule(evs):       # two rules of a policy reference each other's IP set (all sets stay referenced)
        n = 0
        for e in evs:
            if e["ev"] == "emit" and e["m"]["kind"] == "policy_update":
                rs = e["m"]["body"]["inr"]
                if len(rs) >= 2 and len(rs[0]["src"]) == 1 and len(rs[1]["src"]) == 1 and rs[0]["src"] != rs[1]["src"]:
                    rs[0]["src"], rs[1]["src"] = rs[1]["src"], rs[0]["src"]
                    n += 1
        return evs if n else None

    return cc.selftest(ctx, P, [("lose_member", lose_member), ("extra_member", extra_member), ("drop_delta", drop_delta), ("rewire_rule", rewire_rule)], n_random=80)
