"""C35 - mark-bit allocation is collision-free and reversible (felix/markbits)."""
import copy
import os

from vlib import core, pipeline


def signature(t_id, events, off, reason):
    e = events[off]
    return "%s:%s" % (reason, e.get("ev"))


def nontrivial(evs):
    # the antecedent: an allocation sequence that reaches exhaustion (a refused single bit or a short block)
    # on a mask with at least two bits, and a number mapped to a mark and back
    mask = evs[0].get("mask", [])
    exhausted = any((e["ev"] == "next" and not e["ok"]) or (e["ev"] == "block" and e["alloc"] < e["size"]) for e in evs)
    mapped = any(e["ev"] == "map_mark" and e["ok"] and e["n"] for e in evs)
    return len(mask) >= 2 and exhausted and mapped


BASE = {
    "specdir": "marks",
    "driver": {"cmd": "marks"},
    "trace": {"module": "T_Marks", "cfg": "T_Marks.cfg", "heap": "4g", "timeout": 1200},
    "chunk": 150000,
    "signature": signature,
    "nontrivial": nontrivial,
    "rule": "behaviours = one per transition of the graph (mask, bits allocated) of I_Marks over every 8-bit pattern placed at "
            "shifts 0/8/16/24 (quick: 6-bit patterns at 0/13/24, thinned by seed) and 11 structured 32-bit masks (0, single bits, "
            "all ones, alternating, halves, ...), operations NextSingleBitMark and NextBlockBitsMark(0,1,2,3,40); for every random mask and every sixth TLC behaviour the "
            "driver maps all numbers below min(2^popcount+2, 40), the boundary numbers 2^popcount-1, 2^popcount, 2^popcount+1, "
            "2^31, 2^32-1 and random ones to marks and back, and maps sub-masks and marks with a stray bit to numbers (the other "
            "behaviours ask the boundary numbers only); seeded random "
            "32-bit masks (sparse, dense, runs, Felix-like 0xffff0000>>k) with random allocation sequences into exhaustion; "
            "non-trivial = mask of >= 2 bits driven to exhaustion with a successful round trip of a non-zero number",
    "assumptions": ["numbers are in 0 .. 2^32-1 (MapNumberToMark takes an int and truncates it to uint32; larger and negative "
                    "numbers are outside the property's domain)",
                    "one manager is used from one goroutine at a time (it has its own mutex)"],
    "exhaustive": False,
}


def drift(ctx, leg):
    tp = os.path.join(ctx.work, "trace.ndjson")
    if not os.path.exists(tp):
        return
    tr = core.validate_trace("marks", "T_Marks", "T_Marks_exact.cfg", tp, heap="4g", timeout=1200)
    d = ctx.notes.setdefault("drift", [])
    if not tr.accepted:
        d.append({"leg": leg, "line": tr.hwm, "event": str(tr.bad_line)[:300]})
        core.log("drift: real answer differs from the implementation-shaped model at line %d: %s" % (tr.hwm, str(tr.bad_line)[:300]))
    ctx.notes["exact_checked"] = ctx.notes.get("exact_checked", 0) + 1


def run(ctx):
    D = {"workers": 4, "heap": "4g"}
    P = dict(BASE, design=[dict(D, module="I_Marks", cfg="MC_I_Marks_quick.cfg", thorough_cfg="MC_I_Marks.cfg")],
             gen={"module": "Gen_Marks", "cfg": "Gen_cover_q.cfg", "thorough_cfg": "Gen_cover.cfg", "workers": 4,
                  "max": 400, "thorough_max": 12000, "thorough_timeout": 1200},
             n_random=(120, 2500))
    pipeline.standard_check(ctx, P)
    if not ctx.violations:
        drift(ctx, 1)


def _fresh(fn):
    return lambda evs: fn(copy.deepcopy(evs))


def selftest(ctx):
    P = dict(BASE, design=[], gen=None, n_random=(25, 25))

    def same_bit_twice(evs):
        prev = None
        for e in evs:
            if e["ev"] == "reset":
                prev = None
            if e["ev"] == "next" and e["ok"]:
                if prev is not None:
                    e["bits"] = list(prev)
                    return evs
                prev = e["bits"]

    def bit_outside_mask(evs):
        mask = []
        for e in evs:
            if e["ev"] == "reset":
                mask = e["mask"]
            if e["ev"] == "next" and e["ok"]:
                out = [b for b in range(32) if b not in mask]
                if out:
                    e["bits"] = [out[0]]
                    return evs

    def two_bits(evs):
        mask, given = [], []
        for e in evs:
            if e["ev"] == "reset":
                mask, given = e["mask"], []
            if e["ev"] == "next" and e["ok"]:
                free = [b for b in mask if b not in given and b not in e["bits"]]
                if free:
                    e["bits"] = e["bits"] + [free[0]]
                    return evs
                given += e["bits"]
            if e["ev"] == "block":
                given += e["bits"]

    def refuses_early(evs):
        for i, e in enumerate(evs):
            if e["ev"] == "next" and e["ok"]:
                e["ok"], e["bits"] = False, []
                return evs

    def succeeds_when_exhausted(evs):
        mask = []
        for e in evs:
            if e["ev"] == "reset":
                mask = e["mask"]
            if e["ev"] == "next" and not e["ok"] and mask:
                e["ok"], e["bits"] = True, [mask[0]]
                return evs

    def wrong_round_trip(evs):
        for e in evs:
            if e["ev"] == "map_mark" and e["ok"] and e["n"]:
                e["n"] = e["n"][1:]
                return evs

    def mark_outside_mask(evs):
        mask = []
        for e in evs:
            if e["ev"] == "reset":
                mask = e["mask"]
            if e["ev"] == "map_num" and e["ok"]:
                out = [b for b in range(32) if b not in mask]
                if out:
                    e["mark"] = sorted(e["mark"] + [out[0]])
                    return evs

    def fitting_number_refused(evs):
        for e in evs:
            if e["ev"] == "map_num" and e["ok"] and e["n"]:
                e["ok"], e["mark"] = False, []
                return evs

    def short_block(evs):
        for e in evs:
            if e["ev"] == "block" and e["alloc"] >= 2:
                e["bits"] = e["bits"][1:]
                e["alloc"] -= 1
                return evs

    return pipeline.corruption_selftest(ctx, P, [(n, _fresh(f)) for n, f in [
        ("same_bit_twice", same_bit_twice), ("bit_outside_mask", bit_outside_mask), ("two_bits", two_bits),
        ("refuses_early", refuses_early), ("succeeds_when_exhausted", succeeds_when_exhausted),
        ("wrong_round_trip", wrong_round_trip), ("mark_outside_mask", mark_outside_mask),
        ("fitting_number_refused", fitting_number_refused), ("short_block", short_block)]], n_random=25)


MANIFEST = dict(
    text="Property layer Marks (masks, marks and numbers as sets of bit positions, so 32-bit values are exact): "
         "NextSingleBitMark returns a single, never-before-returned bit of the mask and fails iff none is left (the choice is "
         "free), NextBlockBitsMark(n) hands out min(n, free) such bits, every number below 2^popcount(mask) maps to a mark inside "
         "the mask and back to itself, and the number<->mark correspondence is one-to-one. I_Marks (counters + upward scan) is "
         "checked exhaustively by TLC against it for all 8-bit masks and all allocation sequences; its graph generates the "
         "sequences replayed on the real MarkBitsManager over 8-bit patterns at four shifts and structured/random 32-bit masks; "
         "TLC validates every recorded answer.",
    design_ref="3.8 C35",
    technique="TLA+ specs (Marks/I_Marks) + TLC; TLC-generated behaviours replayed; trace validation with TLC",
)
