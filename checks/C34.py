"""C34 - tiered policy authorization is correct and race-free (apiserver .../authorizer AuthorizeTierOperation)."""
import json
import os
import re

from vlib import core, pipeline
from vlib.core import log


def signature(t_id, events, off, reason):
    e = events[off]
    if e.get("ev") == "race":
        return e.get("sig", "race:?")
    if e.get("ev") == "result":
        tab = {r["check"]: r["d"] for r in events[0]["table"]}
        return "wrong-verdict:getTier=%s,policy=%s,wildcard=%s:allowed=%s" % (
            tab.get("getTier"), tab.get("policy"), tab.get("wildcard"), e.get("allowed"))
    if e.get("ev") == "ask":
        return "wrong-question:%s" % e.get("check")
    return "%s:%s" % (reason, e.get("ev"))


def nontrivial(evs):
    kinds = [e["ev"] for e in evs]
    return kinds.count("ask") >= 1 and "result" in kinds


P = {
    "specdir": "auth",
    "design": [{"module": "I_Auth", "cfg": "MC_I_Auth.cfg", "workers": 4}],
    "gen": {"module": "Gen_Auth", "cfg": "Gen_Auth.cfg", "workers": 1},
    # GORACE exitcode=0: reports are recorded as `race` events; the process exit status stays the driver's own
    "driver": {"cmd": "tierauth", "race": True, "timeout": 1200, "env": {"GORACE": "exitcode=0"}},
    "n_random": (60, 3000),
    # classifying mode: race reports are consumed and listed by TLC (REJECT lines), see run()
    "trace": {"module": "T_Auth", "cfg": "T_Auth_all.cfg"},
    "signature": signature,
    "nontrivial": nontrivial,
    "rule": "one trace = one call of the real AuthorizeTierOperation (binary built with -race) against a gated stub authorizer: "
            "all 216 answer tables (3 decisions x error flag per check) x all 6 completion orders from TLC (the next blocked "
            "Authorize call is released only after the previous checker goroutine has exited), over 7 request shapes "
            "(verbs, namespaced/global, bare/tier-prefixed/empty names), plus seeded random tables; every question put to the "
            "authorizer and the verdict are validated against P_Auth; the stub honours context cancellation like a webhook authorizer "
            "(a question whose context the implementation has cancelled is answered 'no opinion' + error, and the verdict is still "
            "judged against the table); a race-detector report during a call is a `race` event "
            "that no action accepts; non-trivial = the call asked the authorizer and returned",
    "assumptions": ["the stub recognises the three checks by resource 'tiers' / name '<tier>.*' / anything else",
                    "only nil versus non-nil of the returned error is judged (the kind of error is recorded, not judged)"],
    "exhaustive": True,
}


def run(ctx):
    """Verdict and question deviations go through the standard pipeline (the trace is rejected at the
    deviating line).  Race reports are listed by TLC in one pass (T_Auth_all.cfg), re-executed once,
    re-judged by TLC in strict mode (T_Auth.cfg rejects the trace at the race event) and reported once
    per signature: the detector reports each distinct pair of racing stacks once per process, so one
    racing variable shows up in a dozen different calls."""
    pipeline.standard_check(ctx, P)
    outp = os.path.join(ctx.work, "tlc-T_Auth-T_Auth_all.cfg.out")
    rej = re.findall(r'^"REJECT (\d+) (\d+) (.*)"$', open(outp).read(), re.M) if os.path.exists(outp) else []
    if not rej:
        return
    by_sig = {}
    for t, _, sig in rej:
        by_sig.setdefault(sig, []).append(int(t))
    log("race reports listed by TLC: %s" % {k: len(v) for k, v in by_sig.items()})
    beh_path = os.path.join(ctx.replay, "behaviours.json") if ctx.replay else os.path.join(ctx.work, "behaviours.json")
    rerun = os.path.join(ctx.work, "trace-rerun-race.ndjson")
    n_random = P["n_random"][0] if ctx.quick else P["n_random"][1]
    pipeline.run_driver(ctx, P["driver"], beh_path, rerun, n_random)
    again = dict(pipeline.split_traces(rerun))
    first = dict(pipeline.split_traces(os.path.join(ctx.work, "trace.ndjson")))
    for sig in sorted(by_sig):
        # the same call should race again; failing that, any call of the re-execution with this signature
        cands = [t for t in by_sig[sig] if t in again and any('"sig":%s' % json.dumps(sig) in x for x in again[t])]
        cands += [t for t, lines in again.items() if any('"sig":%s' % json.dumps(sig) in x for x in lines)]
        if not cands:
            raise core.HarnessError("race report %r did not reproduce on re-execution" % sig)
        t = cands[0]
        one = os.path.join(ctx.work, "trace-race-one.ndjson")
        pipeline.write_traces(one, [(t, again[t])])
        tr = core.validate_trace(P["specdir"], "T_Auth", "T_Auth.cfg", one, keep=ctx.work)
        if tr.accepted:
            raise core.HarnessError("strict trace spec accepted a trace with a race event (trace %s)" % t)
        orig = os.path.join(ctx.work, "trace-race-first.ndjson")
        t0 = by_sig[sig][0]
        pipeline.write_traces(orig, [(t0, first[t0])])
        rdir = core.save_replay(ctx, "race-%s" % re.sub(r"[^A-Za-z0-9]+", "-", sig)[-40:],
                                files={"trace.ndjson": orig, "trace-reexecuted.ndjson": one, "behaviours.json": beh_path,
                                       "tlc.out": os.path.join(ctx.work, "tlc-T_Auth-T_Auth.cfg.out")},
                                meta={"property": ctx.id, "signature": sig, "trace": t0, "reports": len(by_sig[sig]),
                                      "calls_with_report": sorted(set(by_sig[sig]))[:40], "seed": ctx.seed, "tier": ctx.tier,
                                      "rejected_line": json.loads([x for x in first[t0] if '"ev":"race"' in x][0])})
        core.report(ctx, sig, "race detector report during AuthorizeTierOperation: %s (%d reports in %d calls)" %
                    (sig, len(by_sig[sig]), len(set(by_sig[sig]))), rdir)
    ctx.notes["race_reports"] = {k: len(v) for k, v in by_sig.items()}


def selftest(ctx):
    """The unchanged tree is known to race; race events are removed from the recorded trace before the
    corruptions are applied (one corruption re-inserts one)."""
    tspec = {"module": "T_Auth", "cfg": "T_Auth.cfg"}          # strict mode
    trace_path = os.path.join(ctx.work, "selftest.ndjson")
    pipeline.run_driver(ctx, P["driver"], None, trace_path, 24)
    evs = [e for e in core.read_ndjson(trace_path) if e["ev"] != "race"]
    base_path = os.path.join(ctx.work, "selftest-base.ndjson")
    core.write_ndjson(base_path, evs)
    base = core.validate_trace(P["specdir"], tspec["module"], tspec["cfg"], base_path)
    if not base.accepted:
        log("selftest: uncorrupted trace rejected")
        return False

    def flip_verdict(es):
        for e in es:
            if e["ev"] == "result":
                e["allowed"] = not e["allowed"]
                return es

    def wrong_question(es):
        for e in es:
            if e["ev"] == "ask" and e["check"] == "policy":
                e["verb"] = "get" if e["verb"] != "get" else "create"
                return es

    def wrong_wildcard(es):
        for e in es:
            if e["ev"] == "ask" and e["check"] == "wildcard":
                e["name"] = e["name"][:-2]
                return es

    def wrong_answer(es):
        for e in es:
            if e["ev"] == "ask":
                e["d"] = "Deny" if e["d"] != "Deny" else "Allow"
                return es

    def cancelled_tier_get(es):        # an allowed call whose tier GET was cancelled and therefore denied
        cur = None
        for e in es:
            if e["ev"] == "reset":
                cur = [x for x in es if x["t"] == e["t"]]
                res = [x for x in cur if x["ev"] == "result"]
                if res and res[0]["allowed"]:
                    for x in cur:
                        if x["ev"] == "ask" and x["check"] == "getTier":
                            x["cancelled"], x["d"], x["e"] = True, "NoOpinion", True
                            res[0]["allowed"] = False
                            return es

    def inject_race(es):
        for i, e in enumerate(es):
            if e["ev"] == "result":
                return es[:i + 1] + [{"ev": "race", "t": e["t"], "sig": "race:selftest", "accesses": []}] + es[i + 1:]

    ok = True
    for name, fn in [("flip_verdict", flip_verdict), ("wrong_question", wrong_question), ("wrong_wildcard", wrong_wildcard),
                     ("wrong_answer", wrong_answer), ("cancelled_tier_get", cancelled_tier_get),
                     ("inject_race", inject_race)]:
        bad = fn([dict(e) for e in evs])
        if bad is None:
            log("selftest: corruption %s not applicable" % name)
            ok = False
            continue
        bp = os.path.join(ctx.work, "selftest-%s.ndjson" % name)
        core.write_ndjson(bp, bad)
        r = core.validate_trace(P["specdir"], tspec["module"], tspec["cfg"], bp)
        log("selftest: corruption %-16s -> %s" % (name, "accepted (BAD)" if r.accepted else "rejected (%s at line %d)" % (r.reason, r.hwm)))
        ok = ok and not r.accepted
    return ok


MANIFEST = dict(
    text="P_Auth states the decision table (allowed <=> getTier=Allow and (policy=Allow or wildcard=Allow)) and the three questions; "
         "I_Auth models the fork/join structure with every shared-variable access as an action and TLC checks, over all "
         "interleavings and all 216 answer tables, race-freedom (no two unordered conflicting accesses) and the verdict. TLC "
         "enumerates tables x completion orders; the driver runs the real AuthorizeTierOperation under the Go race detector against "
         "a gated stub authorizer, releasing the checks in the chosen order; TLC validates every question and verdict, and a "
         "race-detector report is an event the spec never accepts.",
    design_ref="3.8 C34",
    technique="TLA+ spec (P_Auth/I_Auth) + TLC; TLC-generated cases replayed under -race; trace validation with TLC",
)
