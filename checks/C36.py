"""C36 - CIDR trie lookups agree with plain prefix arithmetic (felix/ip/trie.go, felix/calc/iplpm.go)."""
import copy
import os

from vlib import pipeline


def signature(t_id, events, off, reason):
    e = events[off]
    return "%s:%s" % (reason, e.get("ev"))


def nontrivial(evs):
    # the antecedent of the property is exercised when some observation is made on a structure holding
    # nested prefixes (so that LPM / closest descendants / paths are not trivial) after a deletion
    deleted = False
    for e in evs:
        if e["ev"] in ("del", "kdel"):
            deleted = True
        if deleted and e["ev"] == "obs" and any(len(p) >= 2 for p in e["path"]):
            return True
        if deleted and e["ev"] == "kobs" and sum(1 for k in e["keys"] if k) >= 2:
            return True
    return False


LPM_CIDR = os.environ.get("VERIF_C36_LPM_CIDR") == "1"

BASE = {
    "specdir": "trie",
    "driver": {"cmd": "trie"},
    "trace": {"module": "T_Trie", "cfg": "T_Trie.cfg", "heap": "4g", "timeout": 1500},
    "chunk": 120000,
    "signature": signature,
    "nontrivial": nontrivial,
    "rule": "behaviours = one per transition of the abstract state graph of module Trie (TLC, VIEW + ACTION_CONSTRAINT; "
            "8 nested/sibling/disjoint prefixes of 10.0.0.0/27 and of 2001:db8::/123, 2 values; LPM index: 3-4 prefixes x 3 keys), "
            "thinned by seed in the quick tier, TLC random walks of length 30 over both structures, and seeded random "
            "sequences over 4-12 random prefixes of 9 regions (v4/v6, crossing octet, 32-bit and 64-bit boundaries, /0); "
            "after every mutation every query method is asked for every prefix of the universe and for host addresses; "
            "a trace is non-trivial if it observes nested stored prefixes after a deletion; distinct = distinct event sequences",
    "assumptions": ["stored prefixes are canonical (host bits zero), as every constructor in felix/ip produces them",
                    "one trie holds one address family (the code panics on a mix by design)",
                    "IpTrie.DeleteKey is only called for a key that is present (its only caller does so)"],
    "exhaustive": False,
}


def legs(quick):
    S_DESIGN = [{"module": "MC_Trie", "cfg": "MC_Trie_S4q.cfg", "thorough_cfg": "MC_Trie_S4.cfg", "workers": 4, "heap": "4g",
                 "allow_zero": ("Next",)},
                {"module": "MC_Trie", "cfg": "MC_Trie_K6q.cfg", "thorough_cfg": "MC_Trie_K4.cfg", "workers": 4, "heap": "4g",
                 "allow_zero": ("Next",)}]
    if not quick:
        S_DESIGN += [{"module": "MC_Trie", "cfg": "MC_Trie_S6.cfg", "workers": 4, "heap": "4g", "allow_zero": ("Next",)},
                     {"module": "MC_Trie", "cfg": "MC_Trie_K6q.cfg", "workers": 4, "heap": "4g", "allow_zero": ("Next",)},
                     {"module": "MC_Trie", "cfg": "MC_Trie_K4big.cfg", "workers": 4, "heap": "4g", "allow_zero": ("Next",),
                      "thorough_timeout": 1500}]
    out = []
    # leg 1: transition cover of the CIDR trie graph (v4), plus the seeded random sequences (v4 and v6)
    out.append(dict(BASE, design=S_DESIGN,
                    gen={"module": "Gen_Trie", "cfg": "Gen_cover_S4q.cfg", "thorough_cfg": "Gen_cover_S4.cfg", "workers": 4,
                         "max": 400, "thorough_max": 8000, "thorough_timeout": 1500},
                    n_random=(100, 1200)))
    # leg 2: long TLC random walks over both structures (v6)
    out.append(dict(BASE, design=[],
                    gen={"module": "Gen_Trie", "cfg": "Gen_sim6.cfg", "simulate": {"num": 40, "depth": 40},
                         "thorough_simulate": {"num": 400, "depth": 40}},
                    n_random=(0, 0)))
    if not quick:
        # thorough only: v6 cover, cover of the LPM index graph, v4 random walks
        out.append(dict(BASE, design=[],
                        gen={"module": "Gen_Trie", "cfg": "Gen_cover_S6.cfg", "workers": 4, "max": 8000, "timeout": 1500,
                             "thorough_timeout": 1500},
                        n_random=(0, 0)))
        out.append(dict(BASE, design=[],
                        gen={"module": "Gen_Trie", "cfg": "Gen_cover_K4.cfg", "workers": 4, "max": 5000, "thorough_timeout": 1500},
                        n_random=(0, 0)))
        out.append(dict(BASE, design=[],
                        gen={"module": "Gen_Trie", "cfg": "Gen_cover_K6.cfg", "workers": 4, "max": 2000, "thorough_timeout": 1500},
                        n_random=(0, 0)))
        out.append(dict(BASE, design=[],
                        gen={"module": "Gen_Trie", "cfg": "Gen_sim4.cfg", "simulate": {"num": 400, "depth": 40}},
                        n_random=(0, 0)))
    return out


def run(ctx):
    if LPM_CIDR:
        BASE["driver"] = {"cmd": "trie", "env": {"VERIF_C36_LPM_CIDR": "1"}}
        ctx.notes["lpm_cidr_queries"] = "enabled (VERIF_C36_LPM_CIDR=1): LPM is also demanded for non-host queries"
    for P in legs(ctx.quick):
        pipeline.standard_check(ctx, P)
        if ctx.replay or ctx.violations:
            break


def _fresh(fn):
    # corruption_selftest hands out shallow copies: never let one corruption leak into the next one
    return lambda evs: fn(copy.deepcopy(evs))


def selftest(ctx):
    P = dict(BASE, design=[], gen=None, n_random=(20, 20))

    def drop_delete(evs):
        for i, e in enumerate(evs):
            if e["ev"] == "del" and evs[i - 1]["ev"] == "obs" and evs[i - 1]["get"] != evs[i + 1]["get"]:
                return evs[:i] + evs[i + 1:]

    def flip_value(evs):
        for e in evs:
            if e["ev"] == "obs" and any(e["get"]):
                i = [j for j, v in enumerate(e["get"]) if v][0]
                e["get"][i] = e["get"][i] % 3 + 1
                return evs

    def shorter_lpm(evs):
        # answer with a covering prefix that is not the longest one
        for e in evs:
            if e["ev"] == "obs":
                for i, p in enumerate(e["path"]):
                    if len(p) >= 2 and e["lpm"][i]["v"] > 0:
                        short = min(p, key=lambda x: x["c"]["n"])
                        e["lpm"][i] = {"c": short["c"], "v": short["v"]}
                        return evs

    def lose_descendant(evs):
        for e in evs:
            if e["ev"] == "obs":
                for i, d in enumerate(e["cd"]):
                    if d and e["get"][i]:
                        e["cd"][i] = d[1:]
                        return evs

    def flip_covers(evs):
        for e in evs[5:]:
            if e["ev"] == "obs":
                e["cov"][0] = not e["cov"][0]
                return evs

    def wrong_key(evs):
        for e in evs:
            if e["ev"] == "kobs":
                for i, r in enumerate(e["lpm"]):
                    if r["f"]:
                        e["lpm"][i] = {"f": True, "ns": 3, "nm": 9}
                        return evs

    return pipeline.corruption_selftest(ctx, P, [("drop_delete", _fresh(drop_delete)), ("flip_value", _fresh(flip_value)),
                                                 ("shorter_lpm", _fresh(shorter_lpm)), ("lose_descendant", _fresh(lose_descendant)),
                                                 ("flip_covers", _fresh(flip_covers)), ("wrong_key", _fresh(wrong_key))])


MANIFEST = dict(
    text="Module Trie keeps the CIDR trie as the plain map prefix->value (and the network-set LPM index as prefix->set of "
         "keys) and defines every query (exact lookup, longest-prefix match, Covers, Intersects, CoveredBy, LookupPath, "
         "ClosestDescendants, namespace-isolated LPM) by prefix arithmetic over the stored prefixes (Nets.tla); TLC checks "
         "the oracle's own consistency exhaustively, generates one behaviour per transition of the abstract state graph "
         "(v4 and v6) and random walks, the driver replays them and seeded random sequences on the real CIDRTrie/IpTrie "
         "asking every query after every mutation, and TLC validates every recorded answer against the oracle.",
    design_ref="3.8 C36",
    technique="TLA+ spec (Trie over Nets) + TLC; TLC-generated behaviours replayed; trace validation with TLC",
)
