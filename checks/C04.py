"""C04 - IP set contents equal the addresses selected by the rule.

The check is a list of sub-runs (LEGS).  This file owns the *index-level* leg
(felix/labelindex.SelectorAndNamedPortIndex + ipsetmember, specs/labelindex/IpSets.tla); the
calculation-graph-level leg (specs/calcgraph) can be appended to LEGS: an entry is either a parameter
dict for pipeline.standard_check or a callable taking ctx."""
import os

from vlib import core, pipeline
from vlib.core import log


def signature(t_id, events, off, reason):
    e = events[off]
    if e.get("ev") == "panic":
        dup = any(x.get("ev") == "update_ep" and len(set(x["rec"]["parents"])) < len(x["rec"]["parents"]) for x in events[:off])
        return "panic:%s%s" % ("dup-parent:" if dup else "", e.get("msg", "")[:80])
    return "index:%s:%s:%s" % ("suppress" if events[0].get("suppress") else "plain", reason, e.get("ev"))


def nontrivial(evs):
    # antecedents of the property: a member contributed by two endpoints at once / removed while still
    # contributed (reference counting), a named-port member, or an overlap (one CIDR inside another)
    added = [e for e in evs if e["ev"] == "added"]
    removed = [e for e in evs if e["ev"] == "removed"]
    ports = any("proto" in e["m"] for e in added)
    shared = False
    seen = {}
    for e in evs:
        if e["ev"] == "update_ep":
            seen[e["id"]] = e["rec"]["nets"]
        elif e["ev"] == "delete_ep":
            seen.pop(e["id"], None)
        nets = [tuple(map(str, (n["a"], n["n"]))) for ns in seen.values() for n in ns]
        shared = shared or len(nets) != len(set(nets))
    nested = any(len({n["n"] for n in e["rec"]["nets"]}) > 1 for e in evs if e["ev"] == "update_ep")
    return bool(added) and bool(removed) and (ports or shared or nested)


INDEX_LEG = {
    "name": "index",
    "specdir": "labelindex",
    "design": [{"module": "I_IpSets", "coverage": False, "cfg": "MC_I_IpSets_sup.cfg", "thorough_cfg": "MC_I_IpSets_sup_full.cfg", "workers": 4,
                "timeout": 600, "thorough_timeout": 1700},
               {"module": "I_IpSets", "coverage": False, "cfg": "MC_I_IpSets_nosup.cfg", "thorough_cfg": "MC_I_IpSets_nosup_full.cfg", "workers": 4,
                "timeout": 600, "thorough_timeout": 1700}],
    "gen": {"module": "Gen_IpSets", "cfg": "Gen_ips_cover_small.cfg", "thorough_cfg": "Gen_ips_cover.cfg", "workers": 1,
            "max": 350, "thorough_max": 12000, "timeout": 600, "thorough_timeout": 1700},
    "driver": {"cmd": "ipsetidx"},
    "n_random": (60, 2500),
    "trace": {"module": "T_IpSets", "cfg": "T_IpSets.cfg", "timeout": 1700},
    "chunk": 40000,
    "signature": signature,
    "nontrivial": nontrivial,
    "rule": "index level: one behaviour per transition of the abstract (network sets, IP set) state graph (TLC, VIEW + "
            "ACTION_CONSTRAINT; 2 network sets with nested / sibling-half / duplicate / /0 CIDR lists x 1 IP set with 3 "
            "selectors; thinned by seed), each replayed WITHOUT and WITH overlap suppression, plus seeded random histories "
            "through OnUpdate (1-3 network sets, 1-3 workload endpoints and a host endpoint with named ports of mixed "
            "protocols, 1-2 profiles, 1-4 IP sets incl. named-port sets and redefinition of an id, IPv4+IPv6 pools with "
            "/0, /1 halves, /30../32 ladders, shared and duplicated addresses); every call, member callback and call "
            "return is validated.  non-trivial: members were added and removed and the trace has a shared / duplicated "
            "CIDR, nested prefix lengths or a named-port member; distinct = distinct event sequences",
    "assumptions": ["workload / host endpoint addresses are single addresses (/32, /128), as the datastore validation guarantees",
                    "a profile id occurs at most once in an endpoint's profile list, except in one dedicated trace (see notes/C04.md)"],
    "exhaustive": False,
}

def _graph_leg(ctx):
    # calculation-graph-level leg (specs/calcgraph P_Calc, IP-set component of dp = Want), built with C01-C05
    from checks import c04_graph
    if not ctx.violations:
        c04_graph.run_graph_level(ctx)


LEGS = [INDEX_LEG, _graph_leg]


def drift_run(ctx, P):
    """Second, non-verdict validation: are the members literally the contributed CIDRs (resp. the maximal
    ones)?  A rejection is reported in the evidence as drift, never as a violation."""
    tp = os.path.join(ctx.work, "trace.ndjson")
    if not os.path.exists(tp):
        return
    traces = [t for t in pipeline.split_traces(tp) if not any('"ev":"panic"' in l for l in t[1])]
    p2 = os.path.join(ctx.work, "trace-strict.ndjson")
    pipeline.write_traces(p2, traces)
    r = core.validate_trace(P["specdir"], "T_IpSets", "T_IpSets_strict.cfg", p2, timeout=1700)
    ctx.notes["drift_strict_members"] = "none" if r.accepted else "trace line %d: %s" % (r.hwm, str(r.bad_line)[:300])
    log("strict-members (drift) run:", ctx.notes["drift_strict_members"])


def run(ctx):
    rules = []
    for leg in LEGS:
        if callable(leg):
            leg(ctx)
            continue
        pipeline.standard_check(ctx, leg)
        rules.append(ctx.cov["rule"])
        if leg is INDEX_LEG and not ctx.replay and not ctx.violations and (not ctx.quick or os.environ.get("VERIF_DRIFT")):
            drift_run(ctx, leg)
            P2 = dict(leg)
            P2["design"] = []
            P2["gen"] = {"module": "Gen_IpSets", "cfg": "Gen_ips_sim.cfg", "simulate": {"num": 150, "depth": 60},
                         "timeout": 1700, "thorough_timeout": 1700}
            P2["n_random"] = (0, 0)
            pipeline.standard_check(ctx, P2)
    ctx.cov["rule"] = " || ".join(rules)


def selftest(ctx):
    import copy

    def deep(fn):
        return lambda evs: fn(copy.deepcopy(evs))

    def first(evs, pred):
        for i, e in enumerate(evs):
            if pred(e):
                return i

    def no_panic(evs):
        # the dedicated duplicated-profile trace is not part of the self-test
        t = [e["t"] for e in evs if e["ev"] == "panic"]
        return [e for e in evs if e["t"] not in t]

    def drop_added(evs):
        evs = no_panic(evs)
        i = first(evs, lambda e: e["ev"] == "added")
        if i is not None:
            return evs[:i] + evs[i + 1:]

    def duplicate_added(evs):
        evs = no_panic(evs)
        i = first(evs, lambda e: e["ev"] == "added")
        if i is not None:
            return evs[:i + 1] + [dict(evs[i])] + evs[i + 1:]

    def early_remove(evs):
        # a member is reported removed although an endpoint still contributes it
        evs = no_panic(evs)
        i = first(evs, lambda e: e["ev"] == "added")
        if i is not None:
            j = i + 1
            while evs[j]["ev"] != "done":
                j += 1
            rm = dict(evs[i])
            rm["ev"] = "removed"
            return evs[:j] + [rm] + evs[j:]

    def wrong_port(evs):
        evs = no_panic(evs)
        i = first(evs, lambda e: e["ev"] == "added" and "proto" in e["m"])
        if i is not None:
            evs[i]["m"]["port"] += 1
            return evs

    def wrong_proto(evs):
        evs = no_panic(evs)
        i = first(evs, lambda e: e["ev"] == "added" and "proto" in e["m"])
        if i is not None:
            evs[i]["m"]["proto"] = "udp" if evs[i]["m"]["proto"] != "udp" else "tcp"
            return evs

    def inner_member_emitted(evs):
        # with suppression: an address inside an emitted CIDR is emitted as well
        evs = no_panic(evs)
        sup = {e["t"] for e in evs if e["ev"] == "reset" and e["suppress"]}
        i = first(evs, lambda e: e["ev"] == "added" and e["t"] in sup and "n" in e["m"] and e["m"]["n"] < 8 * len(e["m"]["a"]))
        if i is not None:
            extra = copy.deepcopy(evs[i])
            extra["m"]["n"] = 8 * len(extra["m"]["a"])
            return evs[:i + 1] + [extra] + evs[i + 1:]

    def widen_member(evs):
        evs = no_panic(evs)
        i = first(evs, lambda e: e["ev"] == "added" and "n" in e["m"] and e["m"]["n"] >= 8)
        if i is not None:
            evs[i]["m"]["n"] -= 1
            a = evs[i]["m"]["a"]
            # clear the host bits so that the member is a canonical, wider CIDR
            n = evs[i]["m"]["n"]
            for k in range(len(a)):
                keep = max(0, min(8, n - 8 * k))
                a[k] &= (0xFF << (8 - keep)) & 0xFF
            return evs

    P = dict(INDEX_LEG)
    return pipeline.corruption_selftest(ctx, P, [(n, deep(f)) for n, f in [
        ("drop_added", drop_added), ("duplicate_added", duplicate_added), ("early_remove", early_remove),
        ("wrong_port", wrong_port), ("wrong_proto", wrong_proto), ("inner_member_emitted", inner_member_emitted),
        ("widen_member", widen_member)]], n_random=16)


MANIFEST = dict(
    text="Index level: TLC checks exhaustively that the member bookkeeping of SelectorAndNamedPortIndex (I_IpSets: "
         "reference counts with increment-before-decrement, trie-based overlap suppression with ClosestDescendants) "
         "emits exactly the contributed CIDRs, resp. the maximal ones - an antichain covering the same addresses - "
         "with every add/remove for an absent/present member, over all update sequences of 2 endpoints with nested, "
         "sibling and duplicate CIDRs. TLC-generated behaviours (replayed without and with overlap suppression) and "
         "seeded random histories drive the real index through OnUpdate/UpdateIPSet; every call, OnMemberAdded/"
         "OnMemberRemoved and call return is validated by TLC against IpSets: named-port sets contain exactly the "
         "(address, protocol, port) of matching endpoints' ports; selector sets cover exactly the addresses of matching "
         "endpoints'/network sets' CIDRs (Eval over effective labels, Nets prefix arithmetic), no member inside another "
         "when suppression is on, each member reported once. The calculation-graph-level leg is a separate entry of LEGS.",
    design_ref="3.1 C04 (index level) and C07",
    technique="TLA+ spec (IpSets / I_IpSets, Selectors.Eval, Nets) + TLC; TLC-generated behaviours replayed in both "
              "suppression modes; trace validation with TLC",
)
