"""Shared pieces of the IPAM checks C19-C22 (specs/ipam, harness/memkv, harness/cmd/ipam).

Every check runs pipeline.standard_check once per leg (design leg + TLC schedules replayed through the gate,
or seeded driver runs) against the same property layer P_IPAM / trace spec T_IPAM.  C19 additionally reads
the SOFT channel: the crash-free quiescent handle-agreement check is evaluated by TLC at every return event
and *printed* instead of stopping the run, so that one TLC run classifies every trace (the suspected - now
confirmed - over-count defect shows up in most multi-address histories)."""
import json
import os
import re

from vlib import core, pipeline
from vlib.core import HarnessError, log

TRACE = {"module": "T_IPAM", "cfg": "T_IPAM.cfg", "timeout": 1500, "heap": "4g",
         # the real client spawns goroutines inside some calls (ReleaseIPs per block), so a rejected concurrent trace is
         # re-executed up to 4 times; a verdict still needs a re-execution that is rejected again
         "rerun_attempts": 4}
ALLOW_ZERO = ("Tick", "Capture", "Crash")   # budgets of 0 in some design configs


def signature(t_id, events, off, reason):
    e = events[off]
    return "%s:%s:%s:%s" % (reason, e.get("ev"), e.get("op", ""), e.get("kind", ""))


def leg(ctx, base, name, design=None, gen=None, n_random=(0, 0), mode=None, nontrivial=None, rule=""):
    P = dict(base)
    P["design"] = design or []
    P["gen"] = gen
    P["n_random"] = n_random
    P["driver"] = {"cmd": "ipam", "env": {"VERIF_MODE": mode or ""}, "timeout": 1200}
    P["trace"] = dict(TRACE)
    P["signature"] = signature
    P["nontrivial"] = nontrivial
    P["rule"] = rule or base.get("rule", "")
    log("leg %s" % name)
    stats = pipeline.standard_check(ctx, P)
    trace_path = os.path.join(ctx.work, "trace.ndjson")
    drift = steps = 0
    for e in core.read_ndjson(trace_path):
        if e.get("ev") == "note":
            drift += e.get("drift", 0)
            steps += e.get("steps", 0)
    ctx.notes.setdefault("legs", []).append({"leg": name, "traces": stats["traces"], "events": stats["events"],
                                             "gate_steps": steps, "drift_steps": drift,
                                             "rejected": stats["rejected"]})
    return P, stats


# ---- the soft channel (C19 HandleAgreement) --------------------------------------------------------------------

SOFT_RE = re.compile(r'<<\s*"SOFT",\s*"([a-z-]+)",\s*(\d+),\s*(\{.*?\})\s*>>\n', re.S)
TUP_RE = re.compile(r'<<\s*"([^"]*)",\s*"([^"]*)",\s*(\d+),\s*(\d+)\s*>>')


def soft_lines(tlc_out, kind="handle-agreement"):
    """-> {trace id: first reported tuple list [(name, key, n, m)]} for one kind of soft finding"""
    out = {}
    for m in SOFT_RE.finditer(tlc_out):
        if m.group(1) != kind:
            continue
        t = int(m.group(2))
        if t not in out:
            out[t] = [(a, b, int(c), int(d)) for a, b, c, d in TUP_RE.findall(m.group(3))]
    return out


def classify_overcount(events, mism):
    """Signature of a quiescent handle/block disagreement.  The known class: an AutoAssign incremented the
    handle by k for a block and its (successful) block write allocated j < k addresses.  The surplus of every
    such call is summed per (handle, block); a disagreement is 'explained' iff it equals that sum."""
    surplus = {}
    pend = {}      # client -> (handle key, block key, k) of the last handle increment of its current assign call
    calls = {}
    hcount = {}    # handle key -> {block: n} as last written
    bvals = {}     # block key -> ordinal records as last written
    for e in events:
        ev = e.get("ev")
        if ev == "call":
            calls[e["c"]] = e
            pend.pop(e["c"], None)
        elif ev == "kv" and e.get("err") == "" and e.get("inj") == "":
            c = e["c"]
            if e["kind"] == "handle" and e["op"] in ("create", "update", "delete"):
                new = {x["b"]: x["n"] for x in e["val"].get("blocks", [])} if e["op"] != "delete" else {}
                old = hcount.get(e["key"], {})
                if calls.get(c, {}).get("op") == "assign":
                    for b, n in new.items():
                        if n > old.get(b, 0):
                            pend[c] = (e["val"]["id"], b, n - old.get(b, 0))
                    for b, n in old.items():
                        if new.get(b, 0) < n and c in pend and pend[c][1] == b:
                            pend.pop(c)          # the increment was rolled back after a failed block write
                hcount[e["key"]] = new
            elif e["kind"] == "block" and e["op"] in ("create", "update", "delete"):
                new_ords = e["val"].get("ords", []) if e["op"] != "delete" else []
                old_ords = bvals.get(e["key"], [])
                if e["op"] == "update" and c in pend and pend[c][1] == e["key"]:
                    h, b, k = pend.pop(c)
                    j = sum(1 for i, o in enumerate(new_ords)
                            if o.get("s") == "a" and o.get("h") == h and (i >= len(old_ords) or old_ords[i] != o))
                    if j < k:
                        surplus[(h, b)] = surplus.get((h, b), 0) + (k - j)
                bvals[e["key"]] = new_ords
    ok = bool(mism)
    for h, b, count, owned in mism:
        if count - owned <= 0 or surplus.get((h, b), 0) < count - owned:
            ok = False
    if ok:
        return "handle-overcount:autoassign-increments-by-requested-not-assigned"
    if any(c < o for _, _, c, o in mism):
        return "handle-undercount"
    return "handle-mismatch:unexplained"


def classify_cap(events, tuples):
    return "block-cap-exceeded:blocks-in-pools-the-request-may-not-use-are-not-counted"


def classify_orphan(events, tuples):
    """An affine block without any claim of its owner.  Known class: a ClaimAffinity of host X found X's claim
    confirmed (so did not re-write it) and created the block while a ReleaseAffinity of the same host X (another
    process) was deleting block and claim: the orphan appears either with the releaser's 'delete affinity' (claimer
    between 'create block' and 'confirm') or with the claimer's 'create block' (releaser already done)."""
    for owner, bk, n, _ in tuples:
        host = owner.split(":", 1)[-1]
        calls, start, rel_deleted = {}, {}, []
        verdict = None
        for i, e in enumerate(events):
            if e["ev"] == "call":
                calls[e["c"]] = e
                start[e["c"]] = i
            elif e["ev"] in ("ret", "crash"):
                calls.pop(e["c"], None)
            elif e["ev"] == "kv":
                mine = calls.get(e["c"], {})
                if e["kind"] == "aff" and e["op"] == "delete" and e["err"] == "" and not e["inj"] and \
                        mine.get("op") == "relaff" and mine.get("host") == host and e["key"].endswith(bk[1:]):
                    rel_deleted.append(i)
                if e.get("n") == n:
                    claimers = [c for k, c in calls.items() if k != e["c"] and c.get("op") == "claim" and c.get("host") == host]
                    if e["op"] == "delete" and e["kind"] == "aff" and mine.get("op") == "relaff" and mine.get("host") == host and claimers:
                        verdict = True
                    elif e["op"] == "create" and e["kind"] == "block" and mine.get("op") == "claim" and mine.get("host") == host \
                            and any(j > start[e["c"]] for j in rel_deleted):
                        verdict = True
                    else:
                        verdict = False
                    break
        if not verdict:
            return "orphan-block:unexplained"
    return "orphan-block:claimaffinity-races-releaseaffinity-of-the-same-host"


def handle_soft(ctx, P, kind="handle-agreement", classify=None, what="crash-free quiescent state: handle count != addresses owned in block"):
    """Report the soft findings of one kind found in the last validation run of this leg."""
    classify = classify or classify_overcount
    outp = os.path.join(ctx.work, "tlc-%s-%s.out" % (TRACE["module"], TRACE["cfg"]))
    if not os.path.exists(outp):
        return 0
    soft = soft_lines(open(outp).read(), kind)
    if not soft:
        return 0
    trace_path = os.path.join(ctx.work, "trace.ndjson")
    traces = dict(pipeline.split_traces(trace_path))
    by_sig = {}
    for t in sorted(soft):
        evs = [json.loads(x) for x in traces[t]]
        by_sig.setdefault(classify(evs, soft[t]), []).append(t)
    # re-execute once and require (up to 3 per signature of) the flagged traces to be flagged again; signatures
    # that are listed known findings are not re-validated (they cannot fail the check; saves a TLC run)
    beh = os.path.join(ctx.work, "behaviours.json") if P.get("gen") else None
    if ctx.replay:
        beh = os.path.join(ctx.replay, "behaviours.json")
    fresh_sigs = {sig: ts for sig, ts in by_sig.items() if not core.known_match(ctx.id, sig)}
    soft2 = None
    if fresh_sigs:
        nr = P["n_random"][0] if ctx.quick else P["n_random"][1]
        rer = os.path.join(ctx.work, "trace-rerun-soft-%s.ndjson" % kind)
        pipeline.run_driver(ctx, P["driver"], beh, rer, nr)
        again = dict(pipeline.split_traces(rer))
        pick = sorted(t for ts in fresh_sigs.values() for t in ts[:3])
        sub = os.path.join(ctx.work, "trace-soft.ndjson")
        pipeline.write_traces(sub, [(t, again[t]) for t in pick if t in again])
        tr = core.validate_trace("ipam", TRACE["module"], TRACE["cfg"], sub, timeout=900, heap="4g")
        soft2 = soft_lines(tr.out, kind)
    for sig, ts in sorted(by_sig.items()):
        t = ts[0]
        for x in (ts[:3] if sig in fresh_sigs else []):
            if x not in soft2:
                raise HarnessError("soft finding of trace %s did not reproduce on re-execution" % x)
        one = os.path.join(ctx.work, "soft-%s.ndjson" % t)
        pipeline.write_traces(one, [(t, traces[t])])
        rdir = core.save_replay(ctx, "soft-t%s" % t, files={"trace.ndjson": one, "behaviours.json": beh or ""},
                                meta={"property": ctx.id, "trace": t, "signature": sig, "mismatch": soft[t],
                                      "seed": ctx.seed, "tier": ctx.tier, "traces_with_this_signature": len(ts),
                                      "what": what})
        core.report(ctx, sig, "%s: trace %s (and %d more): %s" % (kind, t, len(ts) - 1, soft[t][:3]), rdir)
    ctx.notes.setdefault("soft_findings", []).append({"kind": kind, "traces_flagged": len(soft),
                                                      "by_signature": {k: len(v) for k, v in by_sig.items()}})
    return len(soft)


def fresh(corruptions):
    """corruption_selftest hands out shallow copies; the corruptions here edit nested values"""
    import copy
    return [(n, (lambda f: (lambda evs: f(copy.deepcopy(evs))))(f)) for n, f in corruptions]


# ---- non-triviality predicates ------------------------------------------------------------------------------------

def overlapping(evs):
    """two API calls overlap in the trace, or a fault was injected / a client crashed"""
    busy = set()
    for e in evs:
        if e["ev"] == "call":
            if busy:
                return True
            busy.add(e["c"])
        elif e["ev"] == "ret":
            busy.discard(e["c"])
        elif e["ev"] == "crash" or (e["ev"] == "kv" and e.get("inj")):
            return True
    return False


def constrained_assign(evs):
    """an auto-assign returned addresses and another returned fewer than it asked for (limits were hit)"""
    want = {}
    full = short = False
    for e in evs:
        if e["ev"] == "call" and e["op"] == "assign":
            want[e["c"]] = e["num"]
        elif e["ev"] == "ret" and e["op"] == "assign":
            n = len(e["ips"])
            full = full or n > 0
            short = short or n < want.get(e["c"], 0)
    return full and short


def stale_or_cooldown(evs):
    """a release was refused (stale sequence number / other handle), or an address was released twice, or a
    released address was re-assigned after ticks"""
    ticks = any(e["ev"] == "tick" for e in evs)
    for e in evs:
        if e["ev"] == "ret" and e["op"] == "release" and (e["err"] in ("badseq", "badhandle") or e["unalloc"]):
            return True
    return ticks and any(e["ev"] == "ret" and e["op"] == "release" and e["released"] for e in evs)


def contended_claim(evs):
    """two owners tried to claim the same block, or a client crashed"""
    owners = {}
    for e in evs:
        if e["ev"] == "crash":
            return True
        if e["ev"] == "kv" and e["kind"] == "aff" and e["op"] == "create":
            owners.setdefault(e["val"]["bk"], set()).add(e["val"]["owner"])
    return any(len(s) > 1 for s in owners.values())
