"""C19 - IPAM never gives one address to two live allocations (libcalico-go/lib/ipam over harness/memkv)."""
from vlib import core, pipeline
from vlib.core import HarnessError, log
from . import _ipam

BASE = {
    "specdir": "ipam",
    "assumptions": ["harness/memkv is a faithful CAS store (its every answer is validated against specs/lib/KV.tla in the same TLC run)",
                    "one ReleaseIPs call names addresses of one block (the real client then runs one goroutine at a time, so the gate decides every interleaving)",
                    "time = real clock + shifts of stored stamps; an in-memory ReleasedAt stamp reads as 'released when the write lands'",
                    "not modelled in I_IPAM (replayed as drift, still judged by P_IPAM): empty-block reclaim, pool-mismatch release, maxAlloc, AssignIP"],
    "exhaustive": False,
}
RULE = ("schedules = random walks of I_IPAM (TLC -simulate: 3 clients on 2 hosts, 2 blocks x 2 addresses, assign 1-2 / ReleaseIPs / "
        "ReleaseByHandle, <= 2 injected conflicts, <= 1 crash) replayed through the memkv gate, plus seeded runs of 4 clients on 3 hosts "
        "(150-300 scheduler decisions each, conflicts, transport errors, one crash, ticks); a trace is non-trivial if two API calls "
        "overlap or a fault was injected; distinct = distinct event sequences")


def run(ctx):
    q = ctx.quick
    # the model reproduces the suspected defect (FixIncr = FALSE must violate the quiescent handle agreement) ...
    if not q:
        r = core.tlc("ipam", "MC_IPAM", "MC_c19_bug.cfg", workers=2, timeout=300)
        if r.violated != "HandleAgreementQuiescent":
            raise HarnessError("I_IPAM with the code's increment no longer violates HandleAgreementQuiescent: %s" % r.violated)
        ctx.notes["model_reproduces_overcount"] = {"states": r.distinct}
    # ... and with the one-line repair the whole protocol satisfies P_IPAM
    design = [{"module": "MC_IPAM", "cfg": "MC_c19_quick.cfg", "thorough_cfg": "MC_c19.cfg", "workers": 4,
               "allow_zero": _ipam.ALLOW_ZERO, "timeout": 600, "thorough_timeout": 1700, "heap": "4g"}]
    P, _ = _ipam.leg(ctx, BASE, "tlc-schedules+seeded-concurrent", design=design,
                     gen={"module": "Gen_IPAM", "cfg": "Gen_sim_c19.cfg", "simulate": {"num": 80, "depth": 120},
                          "thorough_simulate": {"num": 2000, "depth": 120}, "timeout": 600, "thorough_timeout": 1500},
                     n_random=(20, 500), mode="conc", nontrivial=_ipam.overlapping, rule=RULE)
    _ipam.handle_soft(ctx, P)
    if ctx.violations:
        return
    # sequential histories over pool layouts WITH reservations, disabled pools and selectors (the C20 universe):
    # reserved ordinals are skipped inside a block, which is one more way for one address to reach two owners
    _ipam.leg(ctx, BASE, "seeded-sequential-with-reservations", n_random=(40, 800), mode="seq",
              nontrivial=_ipam.constrained_assign, rule=RULE)
    if ctx.violations or q:
        return
    _ipam.leg(ctx, BASE, "tlc-schedules-crash",
              gen={"module": "Gen_IPAM", "cfg": "Gen_sim_c19x.cfg", "simulate": {"num": 1500, "depth": 120}, "timeout": 1500},
              nontrivial=_ipam.overlapping, rule=RULE)


def selftest(ctx):
    P = dict(BASE)
    P.update({"driver": {"cmd": "ipam", "env": {"VERIF_MODE": "conc"}}, "trace": dict(_ipam.TRACE)})

    def blind_write(evs):          # a block CAS that presents no revision (mis-plumbed Update)
        for e in evs:
            if e["ev"] == "kv" and e["kind"] == "block" and e["op"] == "update" and e["err"] == "":
                e["rev"] = 0
                return evs

    def steal(evs):                # an auto-assign write that re-labels somebody else's address
        for e in evs:
            if e["ev"] == "kv" and e["kind"] == "block" and e["op"] == "update" and e["err"] == "":
                a = [o for o in e["val"]["ords"] if o["s"] == "a"]
                if len({o["h"] for o in a}) >= 2:
                    a[0]["h"] = a[1]["h"] if a[0]["h"] != a[1]["h"] else [o for o in a if o["h"] != a[0]["h"]][0]["h"]
                    return evs

    def lost_write(evs):           # the store loses a successful block write
        for i, e in enumerate(evs):
            if e["ev"] == "kv" and e["kind"] == "block" and e["op"] == "update" and e["err"] == "" and i > 10:
                return evs[:i] + evs[i + 1:]

    def phantom_ip(evs):           # the call returns an address it never wrote
        for e in evs:
            if e["ev"] == "ret" and e["op"] == "assign" and e["ips"]:
                e["ips"][0]["a"][3] = (e["ips"][0]["a"][3] + 97) % 256
                return evs

    def undercount(evs):           # a handle write that counts fewer addresses than the handle owns
        for e in evs:
            if e["ev"] == "kv" and e["kind"] == "handle" and e["op"] in ("create", "update") and e["err"] == "" and e["val"]["blocks"]:
                e["val"]["blocks"][0]["n"] = 0
                return evs

    return pipeline.corruption_selftest(ctx, P, _ipam.fresh([("blind_write", blind_write), ("steal", steal), ("lost_write", lost_write),
                                                 ("phantom_ip", phantom_ip), ("undercount", undercount)]), n_random=6)


MANIFEST = dict(
    text="TLC checks exhaustively (2 clients x 2 hosts, 2 blocks x 2 addresses, conflicts, a crash at any pc) that the IPAM "
         "protocol transcribed at one action per datastore call (I_IPAM) is accepted call by call by the property layer P_IPAM and "
         "keeps its invariants; TLC-generated schedules and seeded schedules are replayed on real ipam clients over an in-memory CAS "
         "store whose gate fixes the interleaving; every recorded store call and result is validated by TLC against P_IPAM: no double "
         "owner, every CAS write justified from the value that client read, returned addresses recorded, handles never under-count "
         "and agree exactly at crash-free quiescent points.",
    design_ref="3.3 C19",
    technique="TLA+ (KV, P_IPAM, I_IPAM) + TLC; schedule replay through a gated in-memory backend; trace validation with TLC",
)
