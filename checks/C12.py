"""C12 - all dataplanes agree on the policy verdict.

Two-pass pipeline over generated endpoint policy states (harness/cmd/agree):
  pass 1  driver `gen` -> cases + proto messages; TLC (specs/agree/AgreeProbe) chooses the probe packets of every case
          and direction from the case's own rules; meanwhile the in-package overlay test runs the real
          bpfEndpointManager.extractRules on the same proto messages and dumps the polprog.Rules;
  pass 2  driver `run` -> iptables + nftables rule IR (real renderer -> nfparse), BPF verdict per probe (real
          polprog.Builder, harness/ebpfvm), checker verdict per probe (real policystore + checker.Evaluate);
          TLC (T_Agree) requires each of the four to equal PolicySem!EndpointVerdict for every probe."""
import concurrent.futures
import json
import os
import re

from checks import mgr_common
from checks import nf_common as nf
from vlib import core
from vlib.core import HarnessError, log

SPEC = "agree"
OVERLAY = {"overlay_pkg": "felix/dataplane/linux", "run": "^TestVerifC12ExtractRules$"}


def _agree(ctx, mode, n, out, extra):
    binp = core.go_build("agree")
    env = core.goenv()
    env.update({"VERIF_MODE": mode, "VERIF_N": str(n), "VERIF_SEED": str(ctx.seed), "VERIF_OUT": out})
    env.update(extra)
    p = core.run([binp], env=env, timeout=1800, check=False)
    if p.returncode != 0:
        raise HarnessError("agree %s failed:\n%s" % (mode, (p.stdout or "")[-3000:]))
    with open(out) as f:
        return [l for l in f.read().splitlines() if l]


def _probe_part(ctx, i, lines, cfg, timeout):
    path = os.path.join(ctx.work, "probe-cases-%d.ndjson" % i)
    open(path, "w").write("\n".join(lines) + "\n")
    r = core.tlc(SPEC, "AgreeProbe", cfg, workers=1, timeout=timeout, extra_files={"trace.ndjson": path}, heap="3g", stack="256m")
    if r.violated and r.violated != "deadlock":
        raise HarnessError("AgreeProbe failed: %s\n%s" % (r.violated, r.out[-2000:]))
    if len(r.behaviours) != len(lines):
        raise HarnessError("AgreeProbe produced %d probe sets for %d cases\n%s" % (len(r.behaviours), len(lines), r.out[-2000:]))
    return r


def _extract(ctx, protos, out):
    drv = dict(OVERLAY, env={"VERIF_C12_PROTOS": protos})
    mgr_common.run_driver(ctx, drv, None, out, 0)


def produce(ctx, n, tag=""):
    """-> (trace lines, number of probes, probe-pass TLCResults)"""
    cases = os.path.join(ctx.work, "cases%s.ndjson" % tag)
    protos = os.path.join(ctx.work, "protos%s.json" % tag)
    rules = os.path.join(ctx.work, "rules%s.ndjson" % tag)
    beh = os.path.join(ctx.work, "behaviours%s.json" % tag)
    trace = os.path.join(ctx.work, "trace%s.ndjson" % tag)
    lines = _agree(ctx, "gen", n, cases, {"VERIF_C12_PROTOS": protos})
    k = 4 if len(lines) >= 16 else 1
    parts = [lines[i::k] for i in range(k)]
    cfg = "AgreeProbe.cfg" if ctx.quick else "AgreeProbe_thorough.cfg"
    with concurrent.futures.ThreadPoolExecutor(max_workers=k + 1) as ex:
        fx = ex.submit(_extract, ctx, protos, rules)
        fp = [ex.submit(_probe_part, ctx, i, part, cfg, 900 if ctx.quick else 3000) for i, part in enumerate(parts)]
        res = [f.result() for f in fp]
        fx.result()
    behs = [b for r in res for b in r.behaviours]
    json.dump(behs, open(beh, "w"))
    nprobes = sum(len(x) for b in behs for x in b["pkts"])
    out = _agree(ctx, "run", n, trace, {"VERIF_BEH": beh, "VERIF_C12_RULES": rules})
    return out, nprobes, res, {"beh": beh, "rules": rules, "protos": protos}


def signatures(diag):
    """diag text -> list of (signature, detail) per deviating implementation"""
    if diag.startswith('<<"CLASS", "refused"'):
        return [("netfilter:refused:" + "+".join(sorted(re.findall(r'\{([^}]*)\}', diag)[0].replace('"', "").split(", "))), diag[:300])]
    out = []
    for m in re.finditer(r'<<"(ipt|nft|bpf|chk)", "([^"]*)", "([^"]*)", "([^"]*)", (\d+), "(\w+)", (\[.*?\])>>', diag):
        impl, want, got, tag, cnt, d, pkt = m.groups()
        got = got.split(":")[0]
        sig = "%s:%s" % (impl, tag) if tag != "-" else "%s:%s-vs-%s" % (impl, want, got)
        out.append((sig, "%s wants %s, %s says %s (%s probes, first: %s %s)" % ("reference", want, impl, m.group(3), cnt, d, pkt[:260])))
    return out or [("unclassified", diag[:300])]


def validate(ctx, lines, rerun=None, files=None, report=True):
    rejected, probes, wall, states = nf.walk_parallel(ctx, "T_Agree", "T_Agree.cfg", lines, chunks=4, specdir=SPEC,
                                                      timeout=900 if ctx.quick else 3400)
    found = []
    if rejected:
        log("C12: %d case(s) rejected, re-executing: %s" % (len(rejected), rejected[:12]))
        again = rerun() if rerun else lines
        by_t = {json.loads(l)["t"]: l for l in again}
        sel = [by_t[t] for t in rejected if t in by_t]
        if len(sel) != len(rejected):
            raise HarnessError("re-execution did not reproduce the rejected cases")
        diags = nf.diagnose(ctx, "T_Agree", "T_Agree_diag.cfg", sel, specdir=SPEC)
        seen = set()
        for t in rejected:
            d = diags.get(t)
            if d is None or d.startswith('<<"CLASS", "none"'):
                raise HarnessError("rejection of case %s did not reproduce on re-execution" % t)
            for sig, detail in signatures(d):
                found.append({"case": t, "signature": sig})
                if not report or sig in seen:
                    continue
                seen.add(sig)
                one = os.path.join(ctx.work, "rejected-%s.ndjson" % t)
                open(one, "w").write(by_t[t] + "\n")
                dfile = os.path.join(ctx.work, "diag-%s.txt" % t)
                open(dfile, "w").write(d + "\n")
                fl = {"trace.ndjson": one, "diagnosis.txt": dfile}
                for k, v in (files or {}).items():
                    fl["%s%s" % (k, os.path.splitext(v)[1])] = v
                rdir = core.save_replay(ctx, "case%s-%s" % (t, sig.replace(":", "_")), files=fl,
                                        meta={"property": ctx.id, "case": t, "signature": sig, "seed": ctx.seed, "tier": ctx.tier,
                                              "detail": detail})
                core.report(ctx, sig, "case %s: %s" % (t, detail), rdir)
    return rejected, probes, found, states


def run(ctx, n=None):
    n = n or (60 if ctx.quick else 2400)
    lines, nprobes, pres, files = produce(ctx, n)

    def rerun():
        _extract(ctx, files["protos"], files["rules"])
        return _agree(ctx, "run", n, os.path.join(ctx.work, "trace-rerun.ndjson"), {"VERIF_BEH": files["beh"], "VERIF_C12_RULES": files["rules"]})

    rejected, probes, found, states = validate(ctx, lines, rerun, files)
    hist = {}
    nontriv = 0
    for l in lines:
        c = json.loads(l)
        vs = set()
        for rs in c["results"]:
            for r in rs:
                k = "bpf=%s chk=%s" % (r["bpf"].split(":")[0], r["chk"].split(":")[0])
                hist[k] = hist.get(k, 0) + 1
                vs.add(r["bpf"])
        nontriv += len(vs) > 1
    ctx.cov["traces_validated_against_impl"] += len(lines)
    ctx.cov["evaluations"] += 4 * nprobes
    ctx.cov["distinct_nontrivial"] += nontriv
    ctx.cov["states"] += states + sum(r.distinct for r in pres)
    ctx.cov["transitions"] += states + sum(max(r.generated, 1) for r in pres)
    ctx.cov["exhaustive"] = False
    ctx.cov["rule"] = ("cases = seeded endpoint policy states: 0-3 tiers (default Deny/Pass), 0-3 policies per tier and direction "
                       "(25 % staged; some tiers staged-only), 0-2 profiles, 0-3 rules each from the subset all four "
                       "implementations support (notes/C12.md) incl. IP sets, named-port and service ip+port sets, IPv4 and IPv6, "
                       "policy groups or inline, flow logs, DROP/REJECT; probes per case and direction chosen by TLC from the "
                       "rules of that direction (enforced, staged and profile rules; PolicyProbes, capped per rule); every probe "
                       "is judged for all four implementations; non-trivial = a case whose probes reach both verdicts")
    ctx.notes["probe_packets"] = nprobes
    ctx.notes["recorded_verdict_pairs"] = hist
    ctx.notes["rejected"] = found
    c0 = json.loads(lines[0])
    ctx.sample({"case": c0["case"], "dirs": c0["dirs"], "first_results": [rs[:2] for rs in c0["results"]]}, limit=2)
    ctx.assumptions += [
        "iptables/nftables verdicts are those of the TLA+ kernel model on the rendered endpoint chains (C09 machinery)",
        "harness/ebpfvm interprets the BPF program faithfully (as in C11); BPF rules come from the real extractRules via an "
        "in-package overlay test, the remaining polprog.Rules fields are set as wepApplyPolicy does without a wildcard host endpoint",
        "checker verdict = action of the last element of checker.Evaluate's rule trace (Allow = allow, anything else = deny)",
        "only rule shapes inside the common subset are generated (no ICMP type/code, no ipVersion other than the endpoint's, "
        "CIDRs of one family, at most two positive match blocks, no HTTP / service-account matches, explicit actions)",
    ]


def selftest(ctx):
    lines, _, _, _ = produce(ctx, 24, tag="-st")
    rejected, _, _, _ = validate(ctx, lines, report=False)
    good = [json.loads(l) for l in lines if json.loads(l)["t"] not in set(rejected)]

    def both(c):
        # a case whose probes reach both verdicts
        return len({r["bpf"] for rs in c["results"] for r in rs}) > 1

    good = [c for c in good if both(c)]

    def flip_field(field):
        def fn(c):
            for rs in c["results"]:
                for r in rs:
                    if r[field] == "allow":
                        r[field] = "deny"
                        return c
        return fn

    def ir_loses_final_drop(fl):
        def fn(c):
            for name in (c[fl]["ingress"], c[fl]["egress"]):
                rs = c[fl]["prog"]["chains"][name]
                if rs and rs[-1]["a"]["k"] in ("drop", "reject"):
                    rs[-1]["a"] = {"k": "setmark", "clr": [], "xor": [], "or": [0]}
            return c
        return fn

    def staged_counts_in_reference(c):
        for d in c["dirs"]:
            for t in d["tiers"]:
                for p in t["policies"]:
                    if p["staged"] and p["rules"]:
                        p["staged"] = False
                        return c

    corruptions = [("bpf_verdict_flipped", flip_field("bpf")), ("checker_verdict_flipped", flip_field("chk")),
                   ("iptables_ir_loses_final_drop", ir_loses_final_drop("ipt")), ("nftables_ir_loses_final_drop", ir_loses_final_drop("nft")),
                   ("staged_counts_in_reference", staged_counts_in_reference)]
    batch, expect = [], {}
    for name, fn in corruptions:
        k = 0
        for c in good:
            bad = fn(json.loads(json.dumps(c)))
            if bad is not None:
                bad["t"] = 100000 + len(batch)
                batch.append(json.dumps(bad, separators=(",", ":"), sort_keys=True))
                expect.setdefault(name, []).append(bad["t"])
                k += 1
                if k >= 6:
                    break
    rej, _, _, _ = nf.walk_parallel(ctx, "T_Agree", "T_Agree.cfg", batch, chunks=2, specdir=SPEC)
    ok = True
    for name, _ in corruptions:
        ts = expect.get(name, [])
        hits = sum(1 for t in ts if t in rej)
        log("selftest: corruption %-30s -> %s (%d of %d corrupted cases rejected)" % (name, "rejected" if hits else "accepted (BAD)", hits, len(ts)))
        ok = ok and hits > 0
    return ok


MANIFEST = dict(
    text="The same generated endpoint policy state (IP sets, policies incl. staged ones, tiers with default actions, profiles) is "
         "observed through four implementations: the iptables and nftables endpoint chains (real renderer, executed by the TLA+ "
         "netfilter model), the BPF program (real bpfEndpointManager.extractRules via an in-package overlay test, real "
         "polprog.Builder, eBPF interpreter) and the application-layer checker (real policystore + checker.Evaluate); for "
         "every probe packet TLC derives from the case, each of the four verdicts must equal PolicySem!EndpointVerdict, so "
         "a disagreement names the deviating implementation.",
    design_ref="3.2 C12",
    technique="TLA+ reference semantics (PolicySem) + TLA+ kernel model (Netfilter) evaluated by TLC; recorded verdicts of the real "
              "BPF compiler output (eBPF interpreter) and of the real policy checker validated against the same reference",
)
