"""C14 - BPF conntrack cleanup never removes a live connection (felix/bpf/conntrack Scanner + LivenessScanner,
cleanup-queue protocol with the kernel cleaner of bpf-gpl/conntrack_cleanup.c)."""
import json
import os

from vlib import core, pipeline
from vlib.core import HarnessError, log

SPLIT_ACTIONS = ("CqLookup", "CqCompare", "CqCompareRev", "CqDelKey", "CqDelRev")
F1 = "F1:eqts-fwd-deleted-after-rev-refresh"


def _types(events):
    ty = {}
    for e in events:
        for m in (e.get("ents"),):
            if isinstance(m, dict):
                for k, v in m.items():
                    ty[k] = v
        if e.get("ev") in ("ct_visit", "ct_get") and isinstance(e.get("v"), dict):
            ty[e["k"]] = e["v"]
    return ty


def signature(t_id, events, off, reason):
    e = events[off]
    ev = e.get("ev")
    if ev == "ct_delete":
        ents = _types(events[:off])
        k = e.get("k")
        rec = ents.get(k, {})
        if rec.get("ty") == 1:
            rev = rec.get("rev")
            # the queue entry the cleaner is working on, and what happened to the reverse entry since the
            # scanner looked it up: finding F1 = forward entry queued WITHOUT its reverse key although the lookup
            # of the reverse entry succeeded (equal timestamps), then a reverse-direction packet
            q = next((x for x in reversed(events[:off]) if x.get("ev") == "cq_visit" and x.get("k") == k), None)
            iget = max([i for i, x in enumerate(events[:off]) if x.get("ev") == "ct_get" and x.get("k") == rev] or [-1])
            if q is not None and q.get("rev") == "" and q.get("ts") == q.get("rts") and iget >= 0 \
                    and events[iget].get("found") and events[iget]["v"]["ls"] == q.get("ts") \
                    and any(x.get("ev") == "pkt" and x.get("kind") == "rev" and x.get("k") == rev for x in events[iget:off]):
                return F1
        return "unjustified-delete:ty%s:by-%s" % (rec.get("ty"), e.get("by"))
    if ev == "final":
        return "final:removable-entry-left-or-map-mismatch"
    return "%s:%s" % (reason, ev)


def nontrivial(evs):
    # the property's antecedent: some entry is removed from the conntrack map by the cleanup machinery
    return any(e["ev"] == "ct_delete" and e.get("existed") for e in evs)


DESIGN = {"module": "I_CT", "cfg": "MC_I_CT_quick.cfg", "thorough_cfg": "MC_I_CT.cfg", "workers": 4, "heap": "4g",
          "allow_zero": SPLIT_ACTIONS, "timeout": 300, "thorough_timeout": 1500}

P = {
    "specdir": "bpf_ct",
    "design": [DESIGN],
    "gen": {"module": "Gen_CT", "cfg": "Gen_CT_cover.cfg", "thorough_cfg": "Gen_CT_cover3.cfg", "workers": 1, "heap": "4g",
            "max": 9000, "thorough_max": 40000, "timeout": 300, "thorough_timeout": 1500},
    "driver": {"cmd": "ctscan"},
    "n_random": (500, 5000),
    "trace": {"module": "T_CT", "cfg": "T_CT.cfg", "heap": "4g", "timeout": 600},
    "chunk": 300000,
    "signature": signature,
    "nontrivial": nontrivial,
    "rule": "behaviours = one per transition of I_CT's state graph refined by the iteration order of the current scan (quick: "
            "1 NAT pair incl. orphan forward / reverse-only starts, thinned by seed; thorough: 1 plain + 1 NAT pair; every "
            "interleaving of the scanner's gated map operations, the cleaner's steps, packets and ticks; TLC VIEW + "
            "ACTION_CONSTRAINT); TLC -simulate walks over 2 plain + 1 NAT pair; seeded random schedules over 1-6 plain entries "
            "and 0-3 NAT pairs (15 protocol/TCP-state classes, default and small timeouts, ages placed around the timeout "
            "boundary, orphan forward/reverse entries, state-changing packets); every trace ends with the environment frozen "
            "and two complete scans. A trace is non-trivial if the cleanup machinery removed at least one existing entry; "
            "distinct = distinct event sequences",
    "assumptions": [
        "the kernel cleaner (bpf-gpl/conntrack_cleanup.c) is bound by transcription only: the harness Cleaner executes the "
        "transcribed process_ccq_entry; the userspace scanner, the liveness judgement and the cleanup-queue writes are the real code",
        "processing one cleanup-queue entry in the kernel (lookup, compare last_seen, delete) is atomic with respect to packets "
        "(MC_I_CT_split.cfg shows the residual check-then-act window of the C program when it is not)",
        "main legs: no reverse-direction packet arrives on a NAT pair whose forward and reverse last_seen are equal (known finding "
        "F1; the witness leg lifts this)",
        "timestamps are strictly increasing per entry (a packet never carries the time already stored in the entry it hits)",
        "map iteration delivers a snapshot taken at the start of the iteration (felix/bpf/mock semantics)",
        "only the LivenessScanner is installed (no StaleNAT / workload-remove scanners); IPv4 maps",
    ],
    "exhaustive": False,
}


def _expected_counterexample(ctx, cfg, what):
    r = core.tlc(os.path.join(core.SPECS, "bpf_ct"), "I_CT", cfg, workers=4, timeout=600, heap="4g")
    ctx.notes.setdefault("expected_counterexamples", {})[cfg] = {"violated": r.violated, "distinct_at_stop": r.distinct,
                                                                  "what": what}
    if r.violated != "Safe":
        raise HarnessError("design spec %s no longer shows the documented counterexample (%s): %s" % (cfg, what, r.violated))
    log("design %s: expected counterexample found (%s)" % (cfg, what))


def _witness_leg(ctx):
    """Replay the minimal schedule of finding F1 WITHOUT the reverse-packet assumption on the real scanner."""
    tspec = dict(P["trace"])
    tspec["specdir"] = P["specdir"]
    beh = os.path.join(core.SPECS, "bpf_ct", "witness_F1.json")
    tspec["beh_path"] = beh
    drv = {"cmd": "ctscan", "env": {"VERIF_CT_REVRACE": "1"}}
    out = os.path.join(ctx.work, "trace-witness.ndjson")
    pipeline.run_driver(ctx, drv, beh, out, 0)

    def rerun():
        p2 = os.path.join(ctx.work, "trace-witness-rerun.ndjson")
        pipeline.run_driver(ctx, drv, beh, p2, 0)
        return p2

    st = pipeline.validate_all(ctx, tspec, out, signature, rerun)
    ctx.cov["traces_validated_against_impl"] += st["traces"]
    ctx.cov["evaluations"] += st["events"]
    ctx.notes["witness_F1"] = {"rejected": st["rejected"],
                               "note": "rejected = finding F1 still present; accepted = it no longer reproduces"}
    if not st["rejected"]:
        log("witness F1: accepted by the property layer - the finding no longer reproduces on this tree")


def _drift(ctx):
    """How often the real code's pending operation differed from the one I_CT predicted (never a verdict)."""
    p = os.path.join(ctx.work, "trace.ndjson")
    if not os.path.exists(p):
        return
    n = bad = 0
    kinds = {"ct_iter_begin": "iter_begin", "ct_visit": "visit", "ct_get": "get", "ccq_load": "ccq_load",
             "ccq_update": "ccq_update", "cq_begin": "cq_begin", "cq_visit": "cq_proc"}
    for line in open(p):
        e = json.loads(line)
        if "exp" in e and e["ev"] in kinds:
            n += 1
            if kinds[e["ev"]] != e["exp"]:
                bad += 1
    ctx.notes.setdefault("drift_I_CT_vs_code", []).append({"scheduled_ops": n, "mismatching": bad})


def run(ctx):
    if ctx.replay:
        # a replay directory of the F1 witness needs the environment the witness leg uses
        Pr = dict(P)
        try:
            meta = json.load(open(os.path.join(ctx.replay, "meta.json")))
        except Exception:
            meta = {}
        if meta.get("signature") == F1:
            Pr["driver"] = {"cmd": "ctscan", "env": {"VERIF_CT_REVRACE": "1"}}
            Pr["n_random"] = (0, 0)
        Pr["design"] = []
        pipeline.standard_check(ctx, Pr)
        return
    pipeline.standard_check(ctx, P)
    _drift(ctx)
    if ctx.violations:
        return
    # second generator: long random walks from TLC (-simulate) over 2 plain + 1 NAT pair
    P2 = dict(P)
    P2["design"] = []
    P2["gen"] = {"module": "Gen_CT", "cfg": "Gen_CT_sim.cfg", "heap": "4g", "workers": 1,
                 "simulate": {"num": 150, "depth": 45}, "thorough_simulate": {"num": 2000, "depth": 45}}
    P2["n_random"] = (0, 0)
    pipeline.standard_check(ctx, P2)
    _drift(ctx)
    # liveness on the design spec only (weak fairness of the scanner/cleaner thread), never on traces
    live = {"module": "I_CT", "cfg": "MC_I_CT_live.cfg", "thorough_cfg": "MC_I_CT_live3.cfg", "workers": 4, "heap": "4g",
            "coverage": False, "timeout": 300, "thorough_timeout": 1500}
    P3 = {"specdir": P["specdir"], "design": [live]}
    for d in P3["design"]:
        cfg = d["cfg"] if ctx.quick else d["thorough_cfg"]
        r = core.design_check(P["specdir"], d["module"], cfg, workers=4, timeout=d["timeout"] if ctx.quick else d["thorough_timeout"],
                              coverage=False, heap="4g")
        ctx.add_design(r)
        ctx.notes["liveness_design"] = {"cfg": cfg, "distinct": r.distinct, "property": "Live == \\A k: []<>~Removable(k) under WF(Thread)"}
        log("design liveness %s: %d distinct, %.1fs" % (cfg, r.distinct, r.wall))
    if not ctx.quick:
        # larger universes; mid-iteration cleaner runs (Batch = 1); the documented counterexamples of the model
        for cfg in ("MC_I_CT_batch.cfg",):
            r = core.design_check(P["specdir"], "I_CT", cfg, workers=4, timeout=1500, coverage=True, allow_zero=SPLIT_ACTIONS, heap="4g")
            ctx.add_design(r)
            log("design %s: %d distinct, %.1fs" % (cfg, r.distinct, r.wall))
        _expected_counterexample(ctx, "MC_I_CT_eqts.cfg", "finding F1: forward entry queued alone on equal timestamps")
        _expected_counterexample(ctx, "MC_I_CT_split.cfg", "kernel cleaner compare-then-delete is not atomic (stated limit)")
        P4 = dict(P)
        P4["design"] = []
        P4["gen"] = None
        P4["driver"] = {"cmd": "ctscan", "env": {"VERIF_CT_BIG": "1"}}
        P4["n_random"] = (0, 300)
        pipeline.standard_check(ctx, P4)
    _witness_leg(ctx)


def selftest(ctx):
    def first_deleted(evs):
        for i, e in enumerate(evs):
            if e["ev"] == "ct_delete" and e.get("existed"):
                return i, e
        return None, None

    def drop_refresh_before_delete(evs):
        # remove a packet that refreshed an entry; the recorded map contents / a later deletion no longer add up
        last_pkt = None
        for i, e in enumerate(evs):
            if e["ev"] == "reset":
                last_pkt = None
            if e["ev"] == "pkt" and e["ents"]:
                last_pkt = i
            if e["ev"] == "ct_delete" and e.get("existed") and last_pkt is not None:
                return evs[:last_pkt] + evs[last_pkt + 1:]

    def change_last_seen(evs):
        i, e = first_deleted(evs)
        if e is not None:
            e["ls"] = e["ls"] + 1
            return evs

    def drop_judgement(evs):
        # remove every observation of the governing entry before its deletion
        i, e = first_deleted(evs)
        if e is None:
            return None
        k = e["k"]
        start = max(j for j in range(i) if evs[j]["ev"] == "reset")
        keep = [x for j, x in enumerate(evs) if not (start < j < i and x["ev"] in ("ct_visit", "ct_get") and x.get("k") == k)]
        return keep if len(keep) < len(evs) else None

    def judged_not_yet_expired(evs):
        # move the clock back by rewriting the observation: the entry the cleaner deletes was seen "younger"
        i, e = first_deleted(evs)
        if e is None:
            return None
        k = e["k"]
        for j in range(i - 1, -1, -1):
            x = evs[j]
            if x["ev"] in ("ct_visit", "ct_get") and x.get("k") == k and isinstance(x.get("v"), dict):
                x["v"] = dict(x["v"])
                x["v"]["ls"] = x["v"]["ls"] - 1   # no longer the value that is in the map
                return evs
        return None

    def refresh_between_judgement_and_delete(evs):
        # insert a packet event right before the deletion of a normal entry: it HAS carried traffic
        for i, e in enumerate(evs):
            if e["ev"] == "ct_delete" and e.get("existed"):
                k = e["k"]
                v = None
                now = None
                for j in range(i - 1, -1, -1):
                    x = evs[j]
                    if now is None and x["ev"] in ("tick", "reset"):
                        now = x["now"]
                    if v is None and x["ev"] in ("ct_visit", "ct_get") and x.get("k") == k and isinstance(x.get("v"), dict):
                        v = dict(x["v"])
                    if x["ev"] == "reset":
                        break
                if v is None or now is None or v["ty"] == 1 or v["ls"] >= now:
                    continue
                v["ls"] = now
                pkt = {"ev": "pkt", "t": e["t"], "kind": "plain", "k": k, "ents": {k: v}}
                e2 = dict(e)
                e2["ls"] = now
                return evs[:i] + [pkt, e2] + evs[i + 1:]
        return None

    def leave_expired_entry(evs):
        # the final report still contains an entry that the trace shows as removed
        i, e = first_deleted(evs)
        if e is None:
            return None
        return evs[:i] + evs[i + 1:]

    ok = pipeline.corruption_selftest(ctx, P, [
        ("drop_refresh_before_delete", drop_refresh_before_delete),
        ("change_last_seen", change_last_seen),
        ("drop_judgement", drop_judgement),
        ("judgement_of_other_value", judged_not_yet_expired),
        ("refresh_before_delete", refresh_between_judgement_and_delete),
        ("drop_delete_event", leave_expired_entry),
    ], n_random=40)

    # harness-side cleaner mutants: the trace leg catches the kernel-side bug class too (demonstration; the C file is
    # not executed).  (a) cleaner that skips the last_seen comparison; (b) cleaner whose compare and delete are separate
    # steps with a packet in between (the documented split counterexample).
    tspec = dict(P["trace"])
    tspec["specdir"] = P["specdir"]
    for name, env, n in (("cleaner_skips_compare", {"VERIF_CT_CLEANER": "nocmp"}, 150),):
        out = os.path.join(ctx.work, "selftest-%s.ndjson" % name)
        pipeline.run_driver(ctx, {"cmd": "ctscan", "env": env}, None, out, n)
        r = core.validate_trace(tspec["specdir"], tspec["module"], tspec["cfg"], out, heap="4g")
        log("selftest: harness cleaner mutant %-22s -> %s" % (name, "accepted (BAD)" if r.accepted else "rejected (%s at line %d)" % (r.reason, r.hwm)))
        ok = ok and not r.accepted
    beh = os.path.join(core.SPECS, "bpf_ct", "witness_split.json")
    out = os.path.join(ctx.work, "selftest-split.ndjson")
    pipeline.run_driver(ctx, {"cmd": "ctscan", "env": {"VERIF_CT_SPLIT": "1"}}, beh, out, 0)
    r = core.validate_trace(tspec["specdir"], tspec["module"], tspec["cfg"], out, heap="4g")
    log("selftest: split cleaner + packet between compare and delete -> %s" % ("accepted (BAD)" if r.accepted else "rejected (%s at line %d)" % (r.reason, r.hwm)))
    ok = ok and not r.accepted
    # the model side of the same demonstrations
    for cfg in ("MC_I_CT_eqts.cfg", "MC_I_CT_split.cfg"):
        r = core.tlc(os.path.join(core.SPECS, "bpf_ct"), "I_CT", cfg, workers=4, timeout=600, heap="4g")
        log("selftest: design %s -> %s" % (cfg, "counterexample (expected)" if r.violated == "Safe" else "NO counterexample (BAD)"))
        ok = ok and r.violated == "Safe"
    return ok


MANIFEST = dict(
    text="The real felix/bpf/conntrack Scanner + LivenessScanner run over felix/bpf/mock maps wrapped with a gate at every map "
         "operation; TLC-generated schedules (one per transition of the implementation-shaped spec I_CT: scanner map operations, "
         "cleaner steps, packets refreshing or re-creating entries, clock ticks) and seeded random schedules place packets and "
         "ticks between the scanner's operations. Every recorded removal from the conntrack map is validated by TLC against "
         "the property spec CT: the governing entry (the entry itself; for a NAT forward entry its reverse entry) was observed by "
         "the scanner idle past the timeout of its protocol/TCP state (entryDone rules transcribed to TLA+) and its last_seen is "
         "unchanged at deletion; after the environment is frozen two complete scans must leave nothing removable. The design leg "
         "explores all interleavings of scanner, cleaner, packets and ticks over 2 plain entries + 1 NAT pair and checks the same "
         "rule as an action property, and liveness under weak fairness on the design spec only. LIMIT: the kernel cleaner is bound "
         "by transcription only (conntrack_cleanup.c cannot be executed here; the harness Cleaner executes the transcribed "
         "process_ccq_entry); the userspace scanner, liveness judgement and cleanup-queue writes are the real code.",
    design_ref="3.5 C14",
    technique="TLA+ specs (CT property layer, I_CT implementation layer) + TLC exhaustive/liveness; TLC-generated schedules "
              "replayed on the real scanner through gated mock maps; trace validation with TLC",
)
