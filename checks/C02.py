"""C02 - Felix's output stream never references something the dataplane lacks (felix/calc EventSequencer)."""
from vlib import pipeline
from checks import calc_common as cc

CFG = "T_C02.cfg"


def nontrivial(evs):
    # exercises the antecedent: something is removed / an IP set is changed by delta / a rule references an IP set /
    # an endpoint references a policy or profile / a route needs a tunnel endpoint
    ks = cc.kinds(evs)
    if ks & {"ipset_delta", "ipset_remove", "policy_remove", "profile_remove", "wep_remove", "hep_remove", "vtep_remove", "route_remove", "other_del"}:
        return True
    for e in evs:
        if e["ev"] == "emit" and e["m"]["kind"] in ("wep_update", "hep_update") and (e["m"]["body"]["profiles"] or e["m"]["body"]["tiers"]):
            return True
    return False


RULE = ("behaviours = one per transition of the environment state graph of Gen_CalcEnv (2 abstract keys quick / 3 thorough, "
        "Write/Deliver/DeliverStale/DeliverDup/SpuriousDelete/InSync/Flush, thinned by seed) bound by seed to catalogue keys of "
        "all five universes, completed by catch-up + in-sync + flush; seeded random histories over whole universes with flush "
        "after every update / in batches / only at the end; window-mode histories (a group of related keys - object, key deciding "
        "its activity - toggled in rounds: create+activate, flush, then one multi-update window: edit-then-deactivate, "
        "remove/flush/activate-and-deactivate, deactivate-and-reactivate, delete-and-recreate); TLC -simulate walks with 2-4 "
        "deliveries per flush window (Gen_win.cfg) bound to such groups; every emitted message is judged (delta and removal soundness, "
        "referential integrity of the folded dataplane state after every message, VTEP/route order inside a flush); a trace is "
        "non-trivial if it contains a removal, an IP-set delta, or an endpoint that references a policy/profile; "
        "plus an AsyncCalcGraph leg for the in-sync clause")


def run(ctx):
    # random leg: three of four histories are window-mode (few related keys toggled back and forth, a flush only every
    # 1-4 deliveries, rounds of "create+activate, flush" followed by "edit then deactivate" / "remove, flush, activate and
    # deactivate" / "deactivate and re-activate" / "delete and re-create" windows)
    P = cc.make_P(ctx, CFG, cc.ALL_UNIVERSES, nontrivial, RULE, n_random=(240, 3000), env={"VERIF_FRESH": "none", "VERIF_WINDOWS": "most"})
    pipeline.standard_check(ctx, P)
    if not ctx.replay and not ctx.violations:
        # TLC walks whose flush windows hold 2-4 deliveries (Gen_win.cfg), bound to groups of related catalogue keys
        P3 = cc.make_P(ctx, CFG, cc.ALL_UNIVERSES, nontrivial, RULE, design=False, gen="win", quick_beh=60, thorough_beh=1500,
                       n_random=(0, 0), env={"VERIF_FRESH": "none"})
        pipeline.standard_check(ctx, P3)
    if not ctx.replay and not ctx.violations:
        # in-sync clause: the real AsyncCalcGraph (the only emitter of proto.InSync), timer-driven flushes
        P2 = cc.make_P(ctx, CFG, cc.ALL_UNIVERSES, None, RULE, design=False, gen=None, n_random=(12, 150),
                       env={"VERIF_MODE": "async", "VERIF_FRESH": "none", "VERIF_LEN": "12"})
        pipeline.standard_check(ctx, P2)


def selftest(ctx):
    P = cc.make_P(ctx, CFG, cc.ALL_UNIVERSES, nontrivial, RULE, env={"VERIF_FRESH": "none"})

    def drop_ipset(evs):          # a policy then references an IP set the dataplane never got
        refd = set()
        for e in evs:
            if e["ev"] == "emit" and e["m"]["kind"] == "policy_update":
                for r in e["m"]["body"]["inr"] + e["m"]["body"]["outr"]:
                    refd |= set(r["src"]) | set(r["dst"])
        for i, e in enumerate(evs):
            if e["ev"] == "emit" and e["m"]["kind"] == "ipset_update" and e["m"]["id"] in refd:
                return evs[:i] + evs[i + 1:]

    def dup_remove(evs):          # a removal that names a missing object
        for i, e in enumerate(evs):
            if e["ev"] == "emit" and e["m"]["kind"].endswith("_remove"):
                return evs[:i + 1] + [e] + evs[i + 1:]

    def swap_policy_endpoint(evs):  # endpoint before the policy it references
        for i, e in enumerate(evs):
            if e["ev"] == "emit" and e["m"]["kind"] == "policy_update":
                for j in range(i + 1, len(evs)):
                    f = evs[j]
                    if f["ev"] != "emit":
                        break
                    if f["m"]["kind"] in ("wep_update", "hep_update") and any(e["m"]["id"] in t["ing"] + t["eg"] for t in f["m"]["body"]["tiers"]):
                        first = all(not (x["ev"] == "emit" and x["m"]["kind"] == "policy_update" and x["m"]["id"] == e["m"]["id"]) for x in evs[:i])
                        if first:
                            out = list(evs)
                            out[i], out[j] = out[j], out[i]
                            return out

    def delta_readd(evs):         # a delta adding a member that is already present
        for i, e in enumerate(evs):
            if e["ev"] == "emit" and e["m"]["kind"] == "ipset_update" and e["m"]["body"]["members"]:
                d = {"ev": "emit", "t": e["t"], "m": {"kind": "ipset_delta", "id": e["m"]["id"], "body": {
                    "added": e["m"]["body"]["members"][:1], "removed": [], "nadded": 1, "nremoved": 0}}}
                return evs[:i + 1] + [d] + evs[i + 1:]

    return cc.selftest(ctx, P, [("drop_ipset", drop_ipset), ("dup_remove", dup_remove),
                                ("swap_policy_endpoint", swap_policy_endpoint), ("delta_readd", delta_readd)], n_random=60)


MANIFEST = dict(
    text="TLC checks exhaustively that a transcription of the EventSequencer (pending*/sent* state, Flush() phase order) fed by a "
         "cut-down calculation graph satisfies the property layer P_Calc for all delivery histories and flush points (I_CalcEnv); "
         "TLC-generated delivery histories (every transition of the environment graph: reordered, stale, duplicated, spuriously "
         "deleted updates, arbitrary flush points) and seeded random histories are replayed on the real ValidationFilter -> "
         "CalcGraph -> EventSequencer; TLC validates every emitted message against P_Calc: IP-set deltas add only absent and "
         "remove only present members of an existing set, removals name existing objects, after every message every IP set "
         "referenced by a policy/profile and every policy/profile referenced by an endpoint is present, a tunnel endpoint emitted "
         "in a flush precedes the routes of that flush that need it (and is removed after them), in-sync (AsyncCalcGraph leg) never "
         "precedes the datastore's.",
    design_ref="3.1 C02",
    technique="TLA+ (P_Calc property layer, I_CalcEnv design, Gen_CalcEnv behaviours) + TLC; behaviours replayed on real code; trace validation with TLC",
)
