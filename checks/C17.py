"""C17 - route sync converges for Felix's routes and leaves other routes alone (felix/routetable)."""
import json
import os

from vlib import core, pipeline
from vlib.core import HarnessError, log

SPECDIR = "reconcile_routes"


FINDINGS = {"F1": "F1-early-delete-forgets-belief", "F2": "F2-partial-resync-swallows-list-error",
            "F3": "F3-stale-iface-state-on-ifindex-reuse"}


def classify(events):
    """A rejected trace (cut after the rejected event) is attributed to confirmed defect Fx iff TLC accepts it
    under tolerance Fx, i.e. with the environment assumption weakened exactly at that defect's trigger
    (Routes.tla, constant Tol).  Returns the finding signature or None."""
    import tempfile
    d = tempfile.mkdtemp(prefix="c17cls-", dir=core.WORK)
    try:
        p = os.path.join(d, "cut.ndjson")
        core.write_ndjson(p, events)
        for f in ("F1", "F2", "F3"):
            tr = core.validate_trace(SPECDIR, "T_Routes", "T_Routes_%s.cfg" % f, p, heap="4g", timeout=300)
            if tr.accepted:
                return FINDINGS[f]
        return None
    finally:
        import shutil
        shutil.rmtree(d, ignore_errors=True)


def signature(t_id, events, off, reason):
    known = classify(events[:off + 1])
    if known:
        return known
    e = events[off]
    return "%s:%s:%s" % (reason, e.get("ev"), "ok" if e.get("ok") else "err")


def nontrivial(evs):
    # a trace exercises the property when a successful Apply left routes in the kernel after something was
    # asked for AND the kernel was edited behind Felix's back / an interface changed / a netlink call failed
    kinds = {e["ev"] for e in evs}
    ok_apply = any(e["ev"] == "apply" and e["ok"] and e["kernel"] for e in evs)
    return ok_apply and bool(kinds & {"env_routes", "env_link", "fail"}) and bool(kinds & {"set_routes", "route_update"})


RULE = ("behaviours = TLC random walks (-simulate) through the implementation-layer spec I_Routes (3 generator "
        "configs: RemoveExternalRoutes on/off, conntrack cleanup on/off), every walk = starting kernel + up to 32 "
        "input steps with an Apply at least every 4th step, plus seeded random histories over a larger universe "
        "(7 interfaces, 6 destinations, IPv4/IPv6, 5 route classes, 12 failure flags, persistent failures); a "
        "trace is non-trivial if a successful Apply left routes in the kernel after routes were asked for and "
        "the kernel/interfaces were edited or a netlink failure was armed; distinct = distinct event sequences")
ASSUMPTIONS = [
    "kernel = felix/netlinkshim/mocknetlink; the environment step that takes an interface down/away also removes "
    "the routes through it (flush), as the kernel does; the mock itself would keep them",
    "no route-deletion grace period (routeCleanupGracePeriod = 0), no multi-path targets, TOS 0 (the mock's route "
    "key ignores TOS)",
    "ownership = MainTableOwnershipPolicy as built by ownershippol.NewMainTable, transcribed in Routes.tla "
    "(IsWorkloadBGPPeerIface unset)",
    "three confirmed defects (notes/C17.md F1-F3, known_findings.json): the TLC-generated histories and most random "
    "histories keep away from their triggers (ifindex reuse; route-listing failure hitting a per-interface resync; "
    "contested single-address destination with conntrack cleanup on), 1 in 16 (thorough: 1 in 6) random histories "
    "include them; a rejected trace is attributed to a known finding only if TLC accepts it with the environment "
    "assumption weakened exactly at that defect's trigger (T_Routes_F1/F2/F3.cfg), otherwise it is a violation; the "
    "three minimal reproductions are replayed on every run",
]

DESIGN = [{"module": "I_Routes", "cfg": "MC_I_Routes_quick.cfg", "thorough_cfg": "MC_I_Routes.cfg", "workers": 4,
           "heap": "4g", "timeout": 600, "thorough_timeout": 1500,
           # connection failures / lying LinkByName / per-interface listing are not armed in the quick config
           "allow_zero": ("ConnFail",)}]


def P_for(gen_cfg, n_random, design, num):
    return {
        "specdir": SPECDIR,
        "design": design,
        "gen": {"module": "Gen_Routes", "cfg": gen_cfg, "simulate": {"num": num[0], "depth": 700},
                "thorough_simulate": {"num": num[1], "depth": 700}, "workers": 1, "heap": "4g",
                "timeout": 600, "thorough_timeout": 1500},
        "driver": {"cmd": "routes"},
        "n_random": n_random,
        "trace": {"module": "T_Routes", "cfg": "T_Routes.cfg", "heap": "4g", "timeout": 1200},
        "chunk": 15000,
        "signature": signature,
        "nontrivial": nontrivial,
        "rule": RULE,
        "assumptions": [],
        "exhaustive": False,
    }


P = P_for("Gen_sim.cfg", (250, 2500), DESIGN, (60, 1000))

REPROS = [
    ("F1-early-delete-forgets-belief", "repro_F1_early_delete.json",
     "applyUpdates deletes a moving single-address route early (conntrack ordering) without updating the "
     "Dataplane() tracker; if the replacement fails and the desired route reverts, Apply succeeds with the route missing"),
    ("F2-partial-resync-swallows-list-error", "repro_F2_list_swallowed.json",
     "resyncIface swallows a failed RouteList and takes the interface off the rescan list; after an announced "
     "down/up flap Apply succeeds with the flushed route still missing"),
    ("F3-stale-iface-state-on-ifindex-reuse", "repro_F3_ifindex_reuse.json",
     "a renumbering interface event leaves ifaceIndexToState[old index]; when that ifindex reappears and is first "
     "seen by a full resync the interface is never registered and its routes are not programmed"),
]


def repro_leg(ctx):
    """Replay the minimal reproductions of the confirmed defects on the real code (one driver run, re-executed
    once to confirm determinism).  Each must be rejected by the property spec and be attributed to its own
    finding by the tolerance specs; it is reported through core.report (KNOWN-FINDING when listed in
    known_findings.json, VIOLATION otherwise).  A reproduction that TLC accepts means the defect is gone
    (logged; the known_findings entry can then be retired)."""
    behs = []
    for sig, fname, what in REPROS:
        behs += json.load(open(os.path.join(core.SPECS, SPECDIR, fname)))
    beh = os.path.join(ctx.work, "repro-behaviours.json")
    json.dump(behs, open(beh, "w"))
    tp, tp2 = os.path.join(ctx.work, "repro.ndjson"), os.path.join(ctx.work, "repro2.ndjson")
    pipeline.run_driver(ctx, {"cmd": "routes"}, beh, tp, 0)
    if not ctx.quick:
        pipeline.run_driver(ctx, {"cmd": "routes"}, beh, tp2, 0)
        if open(tp).read() != open(tp2).read():
            raise HarnessError("reproduction traces differ between two executions")
    traces = pipeline.split_traces(tp)
    out = []
    for (sig, fname, what), (t_id, lines) in zip(REPROS, traces):
        one = os.path.join(ctx.work, "repro-%s.ndjson" % sig[:2])
        pipeline.write_traces(one, [(t_id, lines)])
        tr = core.validate_trace(SPECDIR, "T_Routes", "T_Routes.cfg", one, heap="4g", timeout=300)
        rec = {"finding": sig, "reproduced": not tr.accepted, "rejected_event": tr.hwm if not tr.accepted else None}
        if not tr.accepted:
            got = sig
            if not ctx.quick:
                # thorough tier: also check that the tolerance spec attributes the rejection to this very finding
                cut = os.path.join(ctx.work, "repro-cut-%s.ndjson" % sig[:2])
                pipeline.write_traces(cut, [(t_id, lines[:tr.hwm + 1])])
                own = core.validate_trace(SPECDIR, "T_Routes", "T_Routes_%s.cfg" % sig[:2], cut, heap="4g", timeout=300)
                got = sig if own.accepted else None
            rec["classified_as"] = got
            rdir = core.save_replay(ctx, sig[:2], files={"trace.ndjson": one, "behaviours.json": os.path.join(core.SPECS, SPECDIR, fname)},
                                    meta={"property": ctx.id, "signature": got or "unclassified", "event_index": tr.hwm, "what": what})
            core.report(ctx, got or ("unclassified-reproduction:" + sig), what, rdir)
        else:
            log("defect %s no longer reproduces (TLC accepts the reproduction trace)" % sig)
        out.append(rec)
    ctx.notes["defect_reproductions"] = out


def defect_design_leg(ctx):
    """The implementation-layer spec with the code's actual behaviour switched on must violate PostOK."""
    res = []
    for cfg in ("MC_I_Routes_defect_early.cfg", "MC_I_Routes_defect_list.cfg"):
        r = core.tlc(SPECDIR, "I_Routes", cfg, workers=4, heap="4g", timeout=900)
        res.append({"cfg": cfg, "violated": r.violated, "distinct": r.distinct, "wall_s": round(r.wall, 1)})
        if r.violated != "PostOK":
            raise HarnessError("%s was expected to violate PostOK (defect model), got %r" % (cfg, r.violated))
    ctx.notes["defect_design_runs"] = res


def extra_behaviours(ctx):
    """Behaviours from the other generator configurations (RemoveExternalRoutes off; conntrack cleanup on),
    replayed in the same driver run as the main generator's."""
    # directed scenarios (always the same): interrupted route dump with the delivered route gone before the retry;
    # same-class same-destination conflicts with the winner / the loser / the winner's interface withdrawing
    paths = [os.path.join(core.SPECS, SPECDIR, "scenarios.json")]
    for cfg, num in (("Gen_sim_noext.cfg", (0, 400)), ("Gen_sim_ct.cfg", (40, 400))):
        if ctx.quick and not num[0]:
            continue        # RemoveExternalRoutes = false is covered by the seeded random histories in the quick tier
        sim = {"num": num[0] if ctx.quick else num[1], "depth": 700}
        r = core.tlc(SPECDIR, "Gen_Routes", cfg, workers=1, simulate=sim, seed=ctx.seed, heap="4g",
                     timeout=600 if ctx.quick else 1500)
        if r.violated and r.violated != "deadlock":
            raise HarnessError("generator spec problem: %s\n%s" % (r.violated, r.out[-2000:]))
        if not r.behaviours:
            raise HarnessError("generator %s produced no behaviours:\n%s" % (cfg, r.out[-2000:]))
        p = os.path.join(ctx.work, "behaviours-%s.json" % cfg[:-4])
        json.dump(r.behaviours, open(p, "w"))
        paths.append(p)
        ctx.notes.setdefault("extra_generators", []).append({"cfg": cfg, "behaviours": len(r.behaviours)})
    return paths


def run(ctx):
    import time
    t0 = time.time()
    Pm = dict(P)
    if not ctx.quick:
        # second exhaustive design run: the other failure kinds (listing, LinkByName incl. the lying variant,
        # reconnect) on the one-interface universe
        Pm["design"] = DESIGN + [{"module": "I_Routes", "cfg": "MC_I_Routes_faults.cfg", "workers": 4, "heap": "4g",
                                  "thorough_timeout": 1500, "allow_zero": ()}]
    if not ctx.replay:
        Pm["driver"] = {"cmd": "routes", "env": {"VERIF_BEH_EXTRA": ":".join(extra_behaviours(ctx))}}
    t1 = time.time()
    pipeline.standard_check(ctx, Pm)
    ctx.assumptions += ASSUMPTIONS
    if ctx.replay:
        return
    t2 = time.time()
    repro_leg(ctx)
    ctx.notes["wall_breakdown_s"] = {"extra_generators": round(t1 - t0, 1), "design+gen+drive+validate": round(t2 - t1, 1),
                                     "repro_leg": round(time.time() - t2, 1)}
    log("wall breakdown:", ctx.notes["wall_breakdown_s"])
    if not ctx.quick:
        defect_design_leg(ctx)


def selftest(ctx):
    def first_ok_apply(evs, pred=lambda e: True):
        for i, e in enumerate(evs):
            if e["ev"] == "apply" and e["ok"] and e["kernel"] and pred(e) and i > 2:
                return i
        return None

    def drop_felix_route(evs):
        # a wanted route vanishes from the kernel snapshot of a successful Apply
        for i, e in enumerate(evs):
            if e["ev"] == "apply" and e["ok"]:
                prev = None
                for p in reversed(evs[:i]):
                    if "kernel" in p:
                        prev = p["kernel"]
                        break
                new = [r for r in e["kernel"] if prev is not None and r not in prev]
                if new:
                    e["kernel"] = [r for r in e["kernel"] if r != new[0]]
                    return evs
        return None

    def foreign_route_vanishes(evs):
        # a route that nobody asked for and that was in the starting kernel disappears at the first Apply
        # (pick one on a foreign interface with a foreign protocol: never Felix-owned)
        t0 = evs[0]
        for r in t0.get("kernel", []):
            if r["ifx"] in (2, 3) and r["proto"] in (2, 4, 12) and r["table"] == 254:
                pass
        for i, e in enumerate(evs):
            if e["ev"] == "apply":
                for r in e["kernel"]:
                    if r["ifx"] in (2, 3) and r["proto"] in (2, 4) and r["type"] == 1:
                        prev = [p for p in evs[:i] if "kernel" in p][-1]["kernel"]
                        if r in prev:
                            e["kernel"] = [x for x in e["kernel"] if x != r]
                            return evs
        return None

    def flip_gateway(evs):
        for i, e in enumerate(evs):
            if e["ev"] == "apply" and e["ok"]:
                prev = [p for p in evs[:i] if "kernel" in p][-1]["kernel"]
                new = [r for r in e["kernel"] if r not in prev and r["type"] == 1]
                if new:
                    new[0]["gw"] = "203.0.113.7"
                    return evs
        return None

    def drop_request(evs):
        # Felix programs a route that (according to the corrupted trace) nobody asked for
        for i, e in enumerate(evs):
            if e["ev"] == "route_update":
                for j in range(i + 1, len(evs)):
                    f = evs[j]
                    if f["ev"] in ("route_update", "set_routes", "route_remove"):
                        break
                    if f["ev"] == "apply" and f["ok"] and any(r["dst"] == e["target"]["dst"] and r["table"] == 254 for r in f["kernel"]):
                        prev = [p for p in evs[:j] if "kernel" in p][-1]["kernel"]
                        if not any(r["dst"] == e["target"]["dst"] and r["table"] == 254 for r in prev):
                            return evs[:i] + evs[i + 1:]
        return None

    return pipeline.corruption_selftest(ctx, P, [("drop_felix_route", drop_felix_route),
                                                 ("foreign_route_vanishes", foreign_route_vanishes),
                                                 ("flip_gateway", flip_gateway),
                                                 ("drop_request", drop_request)], n_random=40)


MANIFEST = dict(
    text="Routes.tla states the property as the postcondition of Apply (exact owned routes with class priority, "
         "foreign routes untouched, unwanted owned routes gone; demanded whenever Felix was told or had queued a "
         "resync); TLC checks exhaustively that the implementation-shaped I_Routes (one action per netlink call of "
         "Apply, injected netlink failures, interface down/up/recreate, foreign and stale starting kernels) satisfies "
         "it; TLC random walks through I_Routes and seeded random histories are replayed on the real RouteTable over "
         "mocknetlink and every Apply's resulting kernel is validated by TLC against Routes.tla. Three confirmed "
         "defects (notes/C17.md) are replayed by a separate reproduction leg and kept out of the main legs.",
    design_ref="3.5 C17",
    technique="TLA+ spec (Routes/I_Routes) + TLC; TLC-generated behaviours replayed; trace validation with TLC",
)
