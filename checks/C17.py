"""C17 - route sync converges for Felix's routes and leaves other routes alone (felix/routetable)."""
from vlib import pipeline


def signature(t_id, events, off, reason):
    e = events[off]
    return "%s:%s:%s" % (reason, e.get("ev"), "ok" if e.get("ok") else "err")


def nontrivial(evs):
    # a trace exercises the property when a successful Apply happened while something was wanted and a
    # foreign or stale route was in the kernel, or after interface churn / an injected netlink failure
    kinds = {e["ev"] for e in evs}
    ok_apply = any(e["ev"] == "apply" and e["ok"] and e["kernel"] for e in evs)
    return ok_apply and bool(kinds & {"env_routes", "env_link", "fail"}) and bool(kinds & {"set_routes", "route_update"})


P = {
    "specdir": "reconcile_routes",
    "design": [],
    "gen": None,
    "driver": {"cmd": "routes"},
    "n_random": (250, 6000),
    "trace": {"module": "T_Routes", "cfg": "T_Routes.cfg", "heap": "4g", "timeout": 900},
    "chunk": 12000,
    "signature": signature,
    "nontrivial": nontrivial,
    "rule": "",
    "assumptions": [],
    "exhaustive": False,
}


def run(ctx):
    pipeline.standard_check(ctx, P)


def selftest(ctx):
    return False


MANIFEST = dict(text="", design_ref="3.5 C17", technique="")
