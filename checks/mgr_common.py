"""Helper shared by the dataplane-manager checks (C44, C41 state half, C43 manager level); not a check itself.

`run_legs(ctx, P)` is pipeline.standard_check with two extensions:
  * several behaviour generators ("gens") are merged into ONE driver execution (the in-package test binary
    of felix/dataplane/linux is large; every extra `go test` costs a link);
  * "multi_reject": the trace spec never stops at the first trace whose observation the property spec
    refuses; it prints <<"REJECT", trace, line, kind>> and skips to the next trace, so one TLC run
    classifies every trace.  Every rejected trace is then re-executed (driver re-run, optionally with
    `rerun_env`, e.g. more lock-step repetitions), must be rejected again, is given a signature, and is
    reported once per signature through core.report (KNOWN-FINDING or VIOLATION).
The contract is unchanged: a verdict is a trace recorded from the real code that the property-layer TLA+
spec rejects, reproduced on re-execution; anything else is a HarnessError.
"""
import json
import os
import random
import re
import time

from vlib import core, pipeline
from vlib.core import HarnessError, log

REJECT_RE = re.compile(r'<<"REJECT", (\d+), (\d+), "([^"]*)">>')


def _chunks(traces, chunk):
    if not chunk:
        return [traces]
    out, cur, n = [], [], 0
    for t in traces:
        cur.append(t)
        n += len(t[1])
        if n >= chunk:
            out.append(cur)
            cur, n = [], 0
    if cur:
        out.append(cur)
    return out


def multi_validate(ctx, tspec, trace_path, chunk=None, tag="main"):
    """-> (rejects {t_id: (kind, offset of the refused observation in the trace)}, stats).  The trace spec consumes every line; REJECT lines name bad traces."""
    traces = pipeline.split_traces(trace_path)
    stats = {"traces": len(traces), "events": sum(len(l) for _, l in traces), "tlc_states": 0, "tlc_wall_s": 0.0}
    rejects = {}
    for n, part in enumerate(_chunks(traces, chunk)):
        wp = os.path.join(ctx.work, "trace-%s-%d.ndjson" % (tag, n))
        pipeline.write_traces(wp, part)
        tr = core.validate_trace(tspec["specdir"], tspec["module"], tspec["cfg"], wp, timeout=tspec.get("timeout", 600),
                                 heap=tspec.get("heap", "4g"), workers=1, keep=ctx.work)
        stats["tlc_states"] += tr.states
        stats["tlc_wall_s"] += tr.wall
        if not tr.accepted:
            # an event the trace spec cannot even parse/consume: machinery problem, never a verdict
            raise HarnessError("trace spec %s could not consume the trace (%s at line %d): %s\n%s"
                               % (tspec["module"], tr.reason, tr.hwm, json.dumps(tr.bad_line)[:300], tr.out[-1500:]))
        for m in REJECT_RE.finditer(tr.out):
            # line number (1-based, within this chunk) of the refused observation -> offset within its trace
            _, off = pipeline.line_to_trace(part, int(m.group(2)) - 1)
            rejects.setdefault(int(m.group(1)), (m.group(3), off))
    return rejects, stats


def run_driver(ctx, drv, beh_path, out_path, n_random):
    """Like pipeline.run_driver for {"overlay_pkg", "run"} drivers, but the in-package test binary is compiled
    and linked once per check run (go test -c -overlay) and then executed directly for the first execution and
    every re-execution (each `go test` of felix/dataplane/linux re-links a very large binary)."""
    pkg = drv["overlay_pkg"]
    binp = os.path.join(ctx.work, "inpkg-%s.test" % pkg.replace("/", "_"))
    if not os.path.exists(binp):
        ov = core.overlay_for(pkg)
        try:
            core.run(["go", "test", "-c", "-overlay", ov, "-tags", drv.get("tags", "verif"), "-vet=off", "-o", binp, "./" + pkg],
                     cwd=core.REPO, env=core.goenv(), timeout=2400)
        finally:
            try:
                os.unlink(ov)
            except OSError:
                pass
    env = core.goenv()
    env.update({"VERIF_BEH": beh_path or "", "VERIF_OUT": out_path, "VERIF_SEED": str(ctx.seed),
                "VERIF_N": str(n_random), "VERIF_TIER": ctx.tier})
    env.update(drv.get("env", {}))
    if os.path.exists(out_path):
        os.unlink(out_path)
    p = core.run([binp, "-test.run", drv.get("run", "^TestVerif"), "-test.count=1", "-test.timeout", "%ds" % drv.get("timeout", 1800)],
                 cwd=os.path.join(core.REPO, pkg), env=env, timeout=drv.get("timeout", 1800) + 60, check=False)
    if p.returncode != 0 or "no tests to run" in (p.stdout or ""):
        raise HarnessError("overlay driver %s failed rc=%d:\n%s" % (pkg, p.returncode, (p.stdout or "")[-4000:]))
    if not os.path.exists(out_path) or os.path.getsize(out_path) == 0:
        raise HarnessError("driver produced no trace: %s\n%s" % (out_path, (p.stdout or "")[-2000:]))
    return p


def _generate(ctx, P, quick):
    behs, meta = [], []
    for g in P.get("gens", []):
        cfg = g["cfg"] if quick else g.get("thorough_cfg", g["cfg"])
        sim = g.get("simulate") if quick else g.get("thorough_simulate", g.get("simulate"))
        r = core.tlc(g.get("specdir", P["specdir"]), g["module"], cfg, workers=g.get("workers", 1 if sim else 2), simulate=sim,
                     timeout=g.get("timeout", 300) if quick else g.get("thorough_timeout", 1800),
                     seed=ctx.seed if sim else None, heap=g.get("heap", "4g"))
        if r.violated and r.violated != "deadlock":
            raise HarnessError("generator spec problem: %s\n%s" % (r.violated, r.out[-2000:]))
        b = r.behaviours
        total = len(b)
        mx = g.get("max") if quick else g.get("thorough_max", g.get("max"))
        if mx and len(b) > mx:
            b = random.Random(ctx.seed).sample(b, mx)
        if not b:
            raise HarnessError("generator %s/%s produced no behaviours:\n%s" % (g["module"], cfg, r.out[-2000:]))
        behs += b
        meta.append({"module": g["module"], "cfg": cfg, "simulate": sim, "states": r.distinct, "generated": total,
                     "used": len(b), "wall_s": round(r.wall, 1)})
        if not sim:
            ctx.cov["states"] += r.distinct
            ctx.cov["transitions"] += r.generated
        log("generated %d behaviours, using %d (%s/%s %s, %.1fs)" % (total, len(b), g["module"], cfg,
                                                                     "simulate" if sim else "exhaustive", r.wall))
    return behs, meta


def run_legs(ctx, P):
    quick = ctx.quick
    specdir = P["specdir"]
    for d in P.get("design", []):
        cfg = d["cfg"] if quick else d.get("thorough_cfg", d["cfg"])
        to = d.get("timeout", 300) if quick else d.get("thorough_timeout", 3600)
        r = core.design_check(d.get("specdir", specdir), d["module"], cfg, workers=d.get("workers", 4), timeout=to,
                              coverage=d.get("coverage", True), allow_zero=d.get("allow_zero", ()), heap=d.get("heap", "4g"))
        ctx.add_design(r)
        log("design %s/%s: %d distinct, %d generated, %.1fs" % (d["module"], cfg, r.distinct, r.generated, r.wall))

    nr = P.get("n_random", (0, 0))
    n_random = nr[0] if quick else nr[1]
    only_trace = None
    driver = dict(P["driver"])
    if ctx.replay:
        meta = json.load(open(os.path.join(ctx.replay, "meta.json")))
        beh_path = os.path.join(ctx.replay, "behaviours.json")
        have_beh = os.path.exists(beh_path) and os.path.getsize(beh_path) > 2
        ctx.seed = meta.get("seed", ctx.seed)
        if "source" not in meta:
            # replay directory written by pipeline.validate_all: all behaviours of that run + the random leg
            beh_path = beh_path if have_beh else None
        elif meta["source"] == "behaviour" and have_beh:
            n_random = 0                                  # the single behaviour of the rejected trace
        else:
            beh_path = None                               # a seeded random trace: re-run the leg, keep that trace
            n_random = meta.get("n_random", n_random)
            only_trace = meta.get("trace") - meta.get("n_behaviours", 0)
        behs = json.load(open(beh_path)) if beh_path else []
        driver["env"] = dict(driver.get("env", {}), **P.get("rerun_env", {}))
    else:
        behs, gmeta = _generate(ctx, P, quick)
        beh_path = None
        if behs:
            beh_path = os.path.join(ctx.work, "behaviours.json")
            json.dump(behs, open(beh_path, "w"))
            ctx.sample({"behaviour": behs[0]})
        ctx.notes.setdefault("behaviour_generators", []).extend(gmeta)
        ctx.notes["behaviours_from_tlc"] = ctx.notes.get("behaviours_from_tlc", 0) + len(behs)

    trace_path = os.path.join(ctx.work, "trace.ndjson")
    t0 = time.time()
    run_driver(ctx, driver, beh_path, trace_path, n_random)
    log("driver %s: %.1fs" % (driver.get("run", driver.get("cmd")), time.time() - t0))
    if only_trace is not None:
        keep = [(t, l) for t, l in pipeline.split_traces(trace_path) if t == only_trace]
        pipeline.write_traces(trace_path, keep)
    pre = P.get("preprocess")
    if pre:
        pipeline.write_traces(trace_path, pre(pipeline.split_traces(trace_path)))

    def rerun(tag="rerun"):
        p2 = os.path.join(ctx.work, "trace-%s.ndjson" % tag)
        d2 = dict(driver)
        d2["env"] = dict(driver.get("env", {}), **P.get("rerun_env", {}))
        run_driver(ctx, d2, beh_path, p2, n_random)
        return p2

    tspec = dict(P["trace"])
    tspec.setdefault("specdir", specdir)
    tspec["beh_path"] = beh_path or ""
    traces = pipeline.split_traces(trace_path)
    if not P.get("multi_reject"):
        stats = pipeline.validate_all(ctx, tspec, trace_path, P.get("signature"), rerun, chunk=P.get("chunk"))
        rejected = stats["rejected"]
    else:
        rejects, stats = multi_validate(ctx, tspec, trace_path, chunk=P.get("chunk"))
        log("validated %d traces / %d events in %.1fs" % (stats["traces"], stats["events"], stats["tlc_wall_s"]))
        rejected = []
        if rejects:
            log("%d trace(s) rejected by %s; re-executing" % (len(rejects), tspec["module"]))
            confirmed = {}
            pending = dict(rejects)
            # re-execute only the rejected traces (same numbers, same inputs); order-dependent outcomes need the
            # lock-step repetitions to hit the same internal order again, so the repetition count grows
            for attempt, env2 in enumerate(P.get("rerun_envs", [P.get("rerun_env", {})]), 1):
                only = os.path.join(ctx.work, "only-%d.json" % attempt)
                json.dump(sorted(pending), open(only, "w"))
                d2 = dict(driver)
                d2["env"] = dict(driver.get("env", {}), VERIF_ONLY_FILE=only, **env2)
                p2 = os.path.join(ctx.work, "trace-rerun%d.ndjson" % attempt)
                run_driver(ctx, d2, beh_path, p2, n_random)
                if pre:
                    pipeline.write_traces(p2, pre(pipeline.split_traces(p2)))
                rej2, st2 = multi_validate(ctx, tspec, p2, chunk=P.get("chunk"), tag="rerun%d" % attempt)
                log("re-execution %d (%s): %d of %d reproduced, validation %.1fs" % (
                    attempt, env2, sum(1 for t in pending if t in rej2), len(pending), st2["tlc_wall_s"]))
                for t in list(pending):
                    if t in rej2:
                        confirmed[t] = pending.pop(t)
                if not pending:
                    break
            if pending:
                raise HarnessError("rejection did not reproduce on re-execution for trace(s) %s" % sorted(pending)[:10])
            by_t = dict(traces)
            by_sig = {}
            for t in sorted(confirmed):
                evs = [json.loads(x) for x in by_t[t]]
                sig = P["signature"](t, evs, confirmed[t][0], confirmed[t][1])
                by_sig.setdefault(sig, []).append(t)
            for sig in sorted(by_sig):
                ts = by_sig[sig]
                t = min(ts, key=lambda x: (len(by_t[x]), x))          # the shortest rejected trace of this class
                one = os.path.join(ctx.work, "rejected-%s.ndjson" % t)
                pipeline.write_traces(one, [(t, by_t[t])])
                files = {"trace.ndjson": one}
                meta = {"property": ctx.id, "trace": t, "reason": "observation is not F(current set)", "kind": confirmed[t][0], "event_index": confirmed[t][1],
                        "signature": sig, "seed": ctx.seed, "tier": ctx.tier, "traces_with_this_signature": len(ts),
                        "n_random": n_random, "n_behaviours": len(behs)}
                if t <= len(behs):
                    bp = os.path.join(ctx.work, "beh-%s.json" % t)
                    json.dump([behs[t - 1]], open(bp, "w"))
                    files["behaviours.json"] = bp
                    meta["source"] = "behaviour"
                else:
                    meta["source"] = "random"
                rdir = core.save_replay(ctx, "t%s" % t, files=files, meta=meta)
                what = "%s: %d trace(s), e.g. trace %s: %s" % (sig, len(ts), t, " ".join(
                    _brief(json.loads(x)) for x in by_t[t][:14]))
                is_new = core.report(ctx, sig, what, rdir)
                rejected.append({"signature": sig, "traces": len(ts), "example": t, "new": is_new})
        stats["rejected"] = rejected

    nt = 0
    nontrivial = P.get("nontrivial")
    seen = set()
    for t_id, lines in traces:
        evs = [json.loads(x) for x in lines]
        key = json.dumps([{k: v for k, v in e.items() if k != "t"} for e in evs], sort_keys=True)
        if key in seen:
            continue
        seen.add(key)
        if nontrivial is None or nontrivial(evs):
            nt += 1
    ctx.cov["traces_validated_against_impl"] += stats["traces"]
    ctx.cov["evaluations"] += stats["events"]
    ctx.cov["distinct_nontrivial"] += nt
    old_rule = ctx.cov.get("rule") or ""
    ctx.cov["rule"] = (old_rule + " | " if old_rule and old_rule != P.get("rule", "") else "") + P.get("rule", "")
    ctx.cov["exhaustive"] = bool(P.get("exhaustive", False)) and not quick
    ctx.notes.setdefault("trace_validation_legs", []).append(
        {"spec": tspec["module"], "traces": stats["traces"], "events": stats["events"], "distinct_traces": len(seen),
         "tlc_states": stats["tlc_states"], "tlc_wall_s": round(stats["tlc_wall_s"], 1), "rejected": rejected})
    if traces:
        t_id, lines = traces[min(len(traces) - 1, 1)]
        ctx.sample({"trace": t_id, "events": [json.loads(x) for x in lines[:5]]})
    for a in P.get("assumptions", []):
        if a not in ctx.assumptions:
            ctx.assumptions.append(a)
    return stats


def _brief(e):
    ev = e.get("ev")
    if ev == "update":
        return "upd(%s,%s,%s)" % ("".join(map(str, e["id"])), e["name"], "up" if e["up"] else "down")
    if ev == "remove":
        return "rm(%s)" % "".join(map(str, e["id"]))
    if ev == "flush":
        return "flush"
    if ev == "reset":
        return "[%s/v%s]" % (e.get("mode"), e.get("fam"))
    return ev


def multi_selftest(ctx, P, corruptions, n_random=20):
    """corruption self-test for multi_reject trace specs: the clean trace has no REJECT, every corruption has one."""
    tspec = dict(P["trace"])
    tspec.setdefault("specdir", P["specdir"])
    trace_path = os.path.join(ctx.work, "selftest.ndjson")
    run_driver(ctx, P["driver"], None, trace_path, n_random)
    rej, _ = multi_validate(ctx, tspec, trace_path, tag="st")
    ok = True
    if rej and not P.get("selftest_allow_rejects"):
        log("selftest: uncorrupted trace has rejected traces: %s" % sorted(rej)[:5])
        return False
    traces = [(t, l) for t, l in pipeline.split_traces(trace_path) if t not in rej]
    evs = [json.loads(x) for _, l in traces for x in l]
    for name, fn in corruptions:
        bad = fn([json.loads(json.dumps(e)) for e in evs])
        if bad is None:
            log("selftest: corruption %s not applicable" % name)
            ok = False
            continue
        bp = os.path.join(ctx.work, "selftest-%s.ndjson" % name)
        core.write_ndjson(bp, bad)
        try:
            r, _ = multi_validate(ctx, tspec, bp, tag="st-" + name)
            verdict = bool(r)
        except HarnessError:
            verdict = True      # the spec could not even consume it: also not accepted
        log("selftest: corruption %-24s -> %s" % (name, "rejected" if verdict else "accepted (BAD)"))
        ok = ok and verdict
    return ok
