"""C38 - CNI delete is idempotent and leaves no address behind (cni-plugin/pkg/ipamplugin cmdAdd / cmdDel)."""
import json
import os
import re

from vlib import pipeline
from vlib.core import log


def _handles(reset, cid):
    for c in reset.get("containers", []):
        if c["id"] == cid:
            return {reset["net"] + "." + c["id"], c["ns"] + "." + c["pod"]}
    return set()


def _owned(ev, hs):
    return [p for p in ev.get("alloc", []) if not p["cooling"] and p["h"] in hs]


def signature(t_id, events, off, reason):
    e = events[off]
    return "%s:%s:ok=%s:fault=%s" % (reason, e.get("ev"), e.get("ok"), e.get("kind") or "none")


def nontrivial(evs):
    """The property's antecedent: a successful delete that had something to release after a failed / partial
    add or a failed delete, or a successful delete of an already clean container after an earlier delete."""
    reset = evs[0]
    dirty = False          # some add or delete failed earlier in the trace
    deleted = set()
    for prev, e in zip(evs, evs[1:]):
        if e["ev"] not in ("add", "del"):
            continue
        if e["ev"] == "del" and e["ok"]:
            had = _owned(prev, _handles(reset, e["c"]))
            if (had and dirty) or (not had and e["c"] in deleted):
                return True
            deleted.add(e["c"])
        if not e["ok"]:
            dirty = True
    return False


def _select(quota):
    """De-duplicate (a nondeterministic model prints one input once per outcome), keep EVERY behaviour without a
    faulted call (all un-faulted words of the abstract graph, incl. repeated adds of one container with and without
    a delete in between) and fill up to `quota` with a seeded sample of the faulted ones."""
    def f(behs, rnd):
        seen, plain, faulted = set(), [], []
        for b in behs:
            k = json.dumps(b, sort_keys=True)
            if k in seen:
                continue
            seen.add(k)
            (faulted if any(x.get("kind") for x in b) else plain).append(b)
        n = max(quota - len(plain), quota // 3)
        if len(faulted) > n:
            faulted = rnd.sample(faulted, n)
        return plain + faulted
    return f


RULE = ("behaviours = one per transition of I_CNI's abstract graph (pool capacities, addresses per handle, fault plan "
        "used so far): every (store state, add/del of one of 3 containers - two of them of the same pod -, fault "
        "position: the k-th datastore call fails / the k-th compare-and-swap call conflicts) and, after every faulted "
        "call, every un-faulted call (TLC, VIEW + ACTION_CONSTRAINT; duplicates over model outcomes removed; all "
        "un-faulted words kept - they include repeated adds of one container with and without a delete in between -, "
        "faulted ones thinned by seed), with a v6 pool of one address and without a v6 pool so that dual-stack adds fail half-way; plus TLC "
        "random walks with several faulted calls; plus seeded random traces over 2-5 containers / 1-3 pods, pools of "
        "1-64 addresses, cool-down on or off, closed by un-faulted deletes of every container.  A trace is non-trivial "
        "if a delete succeeds and releases something after an earlier failed add/delete, or succeeds on a container "
        "that was already deleted; distinct = distinct event sequences")

ASSUMPTIONS = [
    "an injected datastore fault leaves the store untouched (a transport error that hides a committed write is outside the model)",
    "one CNI call at a time on the node (the plugin's host-wide IPAM lock); no concurrent IPAM client on other nodes",
    "non-KubeVirt pods (the VM address persistence path of cmdAdd/cmdDel is not driven)",
    "allocated = block ordinal whose attribute has a handle id and no ReleasedAt (an ordinal in cool-down is released)",
]

P = {
    "specdir": "cni",
    "design": [{"module": "I_CNI", "cfg": "MC_I_CNI_quick.cfg", "thorough_cfg": "MC_I_CNI.cfg", "workers": 4,
                "timeout": 600, "thorough_timeout": 1500, "heap": "3g"}],
    "gen": {"module": "Gen_CNI", "cfg": "Gen_cover_quick.cfg", "thorough_cfg": "Gen_cover.cfg", "workers": 4,
            "select": _select(600), "timeout": 600, "thorough_timeout": 1500, "heap": "3g"},
    "driver": {"cmd": "cni"},
    "n_random": (200, 4000),
    "trace": {"module": "T_CNI", "cfg": "T_CNI.cfg", "heap": "4g", "timeout": 900},
    "chunk": 60000,
    "signature": signature,
    "nontrivial": nontrivial,
    "rule": RULE,
    "assumptions": ASSUMPTIONS,
    "exhaustive": False,
}


def _drift(ctx):
    """Implementation-layer drift printed by T_CNI (<<"DRIFT", what, line>>): un-faulted calls that did not behave
    as I_CNI says.  Reported in the evidence, never a verdict.  (Counts the last validation run of the leg.)"""
    p = os.path.join(ctx.work, "tlc-T_CNI-T_CNI.cfg.out")
    d = ctx.notes.setdefault("drift", {"add-outcome": 0, "add-rollback": 0, "del-outcome": 0})
    if os.path.exists(p):
        for what, _ in re.findall(r'<<"DRIFT", "([^"]+)", (\d+)>>', open(p).read()):
            d[what] = d.get(what, 0) + 1
        os.unlink(p)
    if any(d.values()):
        log("C38 drift (implementation layer I_CNI vs the real code on un-faulted calls; NOT a verdict): %s" % d)


def run(ctx):
    P1 = dict(P)
    P1["gen"] = dict(P["gen"], select=_select(600 if ctx.quick else 15000))
    pipeline.standard_check(ctx, P1)
    _drift(ctx)
    # second generator: TLC random walks (-simulate) with several faulted calls, 3 containers, 4 pool layouts
    if not ctx.replay and not ctx.violations:
        P2 = dict(P)
        P2["design"] = []
        P2["gen"] = {"module": "Gen_CNI", "cfg": "Gen_sim.cfg", "simulate": {"num": 60, "depth": 14},
                     "thorough_simulate": {"num": 2000, "depth": 14}, "timeout": 600, "heap": "3g"}
        P2["n_random"] = (0, 0)
        P2["assumptions"] = []
        pipeline.standard_check(ctx, P2)
        _drift(ctx)


def selftest(ctx):
    def leave_address(evs):
        # a successful delete after which one of the container's addresses is still recorded
        reset = None
        for i, e in enumerate(evs):
            if e["ev"] == "reset":
                reset = e
            if e["ev"] == "del" and e["ok"] and i > 0 and evs[i - 1]["t"] == e["t"]:
                had = _owned(evs[i - 1], _handles(reset, e["c"]))
                if had:
                    e["alloc"] = e["alloc"] + [had[0]]
                    return evs

    def drop_returned(evs):
        # a successful add that reports no address for one requested family
        for e in evs:
            if e["ev"] == "add" and e["ok"] and e["ips"]:
                e["ips"] = e["ips"][1:]
                return evs

    def returned_not_recorded(evs):
        # a successful add whose returned address is recorded under another handle
        for e in evs:
            if e["ev"] == "add" and e["ok"] and e["ips"]:
                a = e["ips"][0]["a"]
                for p in e["alloc"]:
                    if p["a"] == a:
                        p["h"] = p["h"] + "-x"
                        return evs

    def free_foreign(evs):
        # a delete that also frees an address of another container
        reset = None
        for i, e in enumerate(evs):
            if e["ev"] == "reset":
                reset = e
            if e["ev"] == "del":
                hs = _handles(reset, e["c"])
                foreign = [p for p in e["alloc"] if not p["cooling"] and p["h"] not in hs]
                if foreign:
                    e["alloc"] = [p for p in e["alloc"] if p is not foreign[0]]
                    return evs

    def clean_delete_fails(evs):
        # an un-faulted delete of a container that owns nothing reports an error
        reset = None
        for i, e in enumerate(evs):
            if e["ev"] == "reset":
                reset = e
            if e["ev"] == "del" and e["ok"] and not e["fired"] and i > 0 and evs[i - 1]["t"] == e["t"]:
                if not _owned(evs[i - 1], _handles(reset, e["c"])):
                    e["ok"] = False
                    return evs

    def drop_call(evs):
        # a successful add disappears from the trace: the next call of another pod sees addresses from nowhere
        reset = None
        for i, e in enumerate(evs):
            if e["ev"] == "reset":
                reset = e
            if e["ev"] == "add" and e["ok"] and i + 1 < len(evs) and evs[i + 1]["ev"] in ("add", "del") \
                    and evs[i + 1]["t"] == e["t"] and not (_handles(reset, e["c"]) & _handles(reset, evs[i + 1]["c"])):
                return evs[:i] + evs[i + 1:]

    def add_frees_held(evs):
        # an add (of the same container) after which an address returned by its earlier successful add is gone
        reset, held = None, {}
        for i, e in enumerate(evs):
            if e["ev"] == "reset":
                reset, held = e, {}
            elif e["ev"] == "del":
                held.pop(e["c"], None)
            elif e["ev"] == "add":
                h = reset["net"] + "." + e["c"]
                old = [a for a in held.get(e["c"], []) if any(p["a"] == a and p["h"] == h and not p["cooling"] for p in e["alloc"])]
                if old:
                    e["alloc"] = [p for p in e["alloc"] if p["a"] != old[0]]
                    return evs
                if e["ok"]:
                    held.setdefault(e["c"], []).extend(x["a"] for x in e["ips"])

    return pipeline.corruption_selftest(ctx, P, [
        ("add_frees_held", add_frees_held),
        ("leave_address", leave_address), ("drop_returned", drop_returned),
        ("returned_not_recorded", returned_not_recorded), ("free_foreign", free_foreign),
        ("clean_delete_fails", clean_delete_fails), ("drop_call", drop_call)], n_random=40)


MANIFEST = dict(
    text="The real cmdAdd/cmdDel of the calico-ipam CNI plugin run (through verif-tag hooks: client factory, "
         "VerifCmdAdd/VerifCmdDel) against an in-memory compare-and-swap datastore wrapped by a fault injector (the "
         "k-th datastore call of a CNI call fails, or its k-th compare-and-swap conflicts). TLC checks exhaustively "
         "that the phase design of add/delete (I_CNI: v4 phase, v6 phase, rollback; release by primary then legacy "
         "handle) satisfies the property layer P_CNI, generates every (abstract store state, call, fault position) "
         "plus the un-faulted calls after each fault, and random multi-fault walks; after every real call the result "
         "and the store's allocations-by-handle are validated by TLC against P_CNI: a successful add holds one "
         "address per requested family under <net>.<containerID>; after a successful delete nothing is allocated to "
         "<net>.<containerID> or <namespace>.<pod>; the addresses returned by successful adds stay allocated to the "
         "container's handle until a delete of that container releases them (a later add, successful or rolled back, "
         "never frees them); an un-faulted delete of a clean container succeeds; no call "
         "touches another container's addresses.",
    design_ref="3.3 C38",
    technique="TLA+ spec (P_CNI/I_CNI) + TLC; TLC-generated add/del words with fault positions replayed on the real "
              "plugin over a fault-injecting in-memory datastore; trace validation with TLC",
)
