#!/usr/bin/env python3
"""Generate the per-property status table (markdown) from MANIFEST.json, evidence/*.json, seeded/*/meta.json, known_findings.json."""
import glob, json, os
R = '/verif'
man = json.load(open(R + '/MANIFEST.json'))
kf = json.load(open(R + '/known_findings.json'))
seeds = {}
for m in sorted(glob.glob(R + '/seeded/C*/meta.json')):
    d = json.load(open(m)); seeds.setdefault(d['property'], []).append((os.path.basename(os.path.dirname(m)), d['check']['caught'], 'history' in d))
fixed = {}
for f in kf['fixed']:
    pid = f.split('property=')[1].split()[0]; fixed.setdefault(pid, []).append(f.split()[2])
known = {}
for f in kf['findings']:
    known.setdefault(f['property'], []).append(f['signature'])
print('| id | design-leg states (quick) | traces / events validated (quick) | wall s | fix commits | known findings | seeded changes (caught?) |')
print('|---|---|---|---|---|---|---|')
for c in man['checks']:
    pid = c['property_id']
    try:
        ev = json.load(open(R + '/evidence/%s.json' % pid)); cov = ev['coverage']
        row = [pid, str(cov.get('states', '')), '%s / %s' % (cov.get('traces_validated_against_impl', ''), cov.get('evaluations', '')), str(int(ev.get('wall_s', 0)))]
    except Exception:
        row = [pid, '?', '?', '?']
    row.append(' '.join(fixed.get(pid, [])) or '-')
    row.append('; '.join(known.get(pid, [])) or '-')
    row.append(', '.join('%s %s%s' % (n, 'caught' if c else 'MISSED', ' (after strengthening)' if h and c else '') for n, c, h in seeds.get(pid, [])) or '-')
    print('| ' + ' | '.join(row) + ' |')
for na in man.get('not_applicable', []):
    print('| %s | not applicable: %s | | | | | |' % (na['property_id'], na['reason'][:120]))
