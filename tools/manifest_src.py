"""Source of MANIFEST.json: one entry per claimed property. Regenerate with tools/mkmanifest.py."""

COMMON_NOTE = ("Trusted: TLC + CommunityModules, the Go toolchain, the repository's own mocks where a kernel/datastore "
               "is needed, the finite universes stated in the evidence file. Verdicts come only from traces of the real "
               "code rejected by the TLA+ property-layer specification and reproduced on re-execution.")

import glob
import importlib
import os
import sys

ROOT = os.path.dirname(os.path.dirname(os.path.abspath(__file__)))
sys.path.insert(0, ROOT)
CLAIMED = {}
# only checks the lead has verified on the unchanged tree are claimed (tools/claimed.txt)
ENABLED = set(open(os.path.join(ROOT, 'tools', 'claimed.txt')).read().split())
for f in sorted(glob.glob(os.path.join(ROOT, "checks", "C[0-9][0-9].py"))):
    pid = os.path.basename(f)[:-3]
    m = importlib.import_module("checks." + pid)
    if hasattr(m, "MANIFEST") and pid in ENABLED:
        CLAIMED[pid] = m.MANIFEST

NOT_YET = "check not built yet in this round; the TLA+ design for it is in DESIGN.md section 3"
NOT_APPLICABLE = {
    "C13": "equality of two tables of compile-time layout constants (Go offsets vs C offsetof): no state or transitions "
           "for a TLA+ specification to range over, and the C side cannot be compiled here (DESIGN.md section 7)",
}
