"""Source of MANIFEST.json: one entry per claimed property. Regenerate with tools/mkmanifest.py."""

COMMON_NOTE = ("Trusted: TLC + CommunityModules, the Go toolchain, the repository's own mocks where a kernel/datastore "
               "is needed, the finite universes stated in the evidence file. Verdicts come only from traces of the real "
               "code rejected by the TLA+ property-layer specification and reproduced on re-execution.")

CLAIMED = {
    "C18": dict(
        text="TLC checks exhaustively (3 keys x 2 values) that the three-map implementation design (I_Delta) refines "
             "the two-map property spec (Delta); every transition of the abstract state graph is replayed on the real "
             "DeltaTracker (leg A) and every recorded call + observation of the four views is validated by TLC "
             "against Delta (leg B), plus seeded random sequences with mutation during iteration, batched iteration "
             "and failing ReplaceAllIter.",
        design_ref="3.5 C18",
        technique="TLA+ spec (Delta/I_Delta) + TLC; TLC-generated behaviours replayed; trace validation with TLC",
    ),
}

NOT_YET = "check not built yet in this round; the TLA+ design for it is in DESIGN.md section 3"
NOT_APPLICABLE = {
    "C13": "equality of two tables of compile-time layout constants (Go offsets vs C offsetof): no state or transitions "
           "for a TLA+ specification to range over, and the C side cannot be compiled here (DESIGN.md section 7)",
}
