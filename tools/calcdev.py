#!/usr/bin/env python3
"""Dev loop helper: validate a calcgraph trace file with a cfg, dropping rejected traces and continuing; prints reasons."""
import sys, re, json, os
sys.path.insert(0, "/verif")
from vlib import core, pipeline
trace, cfg, cat = sys.argv[1], sys.argv[2], sys.argv[3]
traces = pipeline.split_traces(trace)
work = trace + ".work"
seen = {}
for _ in range(int(sys.argv[4]) if len(sys.argv) > 4 else 15):
    pipeline.write_traces(work, traces)
    r = core.validate_trace("calcgraph", "T_Calc", cfg, work, extra_files={"catalogue.json": cat}, timeout=900)
    if r.accepted:
        print("accepted rest: %d traces, %d events, %.1fs" % (len(traces), r.total, r.wall)); break
    bads = re.findall(r'<<"BAD", "([^"]*)"', r.out)
    pos, off = pipeline.line_to_trace(traces, r.hwm)
    t_id, lines = traces[pos]
    uni = json.loads(lines[0])["universe"]
    why = bads[-1] if bads and bads[-1] else "no-match/" + (r.out[r.out.find("Error:"):][:300] if "Error:" in r.out else "")
    print("REJECT trace %s (%s) at event %d: %s  [%.1fs]" % (t_id, uni, off, why, r.wall))
    one = "%s.rej-%s" % (trace, t_id)
    pipeline.write_traces(one, [(t_id, lines)])
    seen.setdefault(why, []).append((t_id, off))
    traces.pop(pos)
print(json.dumps(seen, indent=1))
