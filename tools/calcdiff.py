#!/usr/bin/env python3
"""Debug aid (not part of any verdict): fold the emits of one trace up to a line and diff against the fresh event there.
usage: calcdiff.py trace.ndjson <0-based line index of the fresh event>"""
import json, sys

def apply(d, m):
    k, i, b = m["kind"], m["id"], m.get("body")
    comp = {"ipset": "ipsets", "policy": "policies", "profile": "profiles", "wep": "weps", "hep": "heps", "vtep": "vteps", "route": "routes"}
    if k == "ipset_update":
        d["ipsets"][i] = sorted(x["s"] for x in b["members"])
    elif k == "ipset_delta":
        s = set(d["ipsets"].get(i, []))
        s -= {x["s"] for x in b["removed"]}
        s |= {x["s"] for x in b["added"]}
        d["ipsets"][i] = sorted(s)
    elif k.startswith("other_"):
        key = m["comp"] + "|" + i
        if k == "other_set":
            d["other"][key] = b
        else:
            d["other"].pop(key, None)
    elif k in ("insync", "notready"):
        pass
    else:
        c, op = k.rsplit("_", 1)
        if op == "update":
            d[comp[c]][i] = b
        else:
            d[comp[c]].pop(i, None)

def empty():
    return {c: {} for c in ("ipsets", "policies", "profiles", "weps", "heps", "vteps", "routes", "other")}

lines = [json.loads(x) for x in open(sys.argv[1])]
idx = int(sys.argv[2])
while lines[idx]["ev"] != "fresh":
    idx += 1
start = idx
while lines[start]["ev"] != "reset":
    start -= 1
d = empty()
for e in lines[start:idx]:
    if e["ev"] == "emit":
        apply(d, e["m"])
f = empty()
for m in lines[idx]["msgs"]:
    apply(f, m)
print("universe", lines[start]["universe"], "fed", lines[idx]["fed"], "absent", lines[idx].get("absent"))
for c in d:
    for k in sorted(set(d[c]) | set(f[c])):
        a, b = d[c].get(k), f[c].get(k)
        if a != b:
            ra = a.get("raw", a) if isinstance(a, dict) else a
            rb = b.get("raw", b) if isinstance(b, dict) else b
            print("DIFF %s[%s]\n   main : %s\n   fresh: %s" % (c, k, ra, rb))
if "-v" in sys.argv:
    for e in lines[start:idx]:
        if e["ev"] in ("deliver", "status", "flushed"):
            print(e["ev"], e.get("k", ""), e.get("v", ""), e.get("s", ""))
        elif e["ev"] == "emit":
            print("   emit", e["m"]["kind"], e["m"]["id"])
