#!/usr/bin/env python3
"""Print the prompt for a seeding sub-agent: only the property text + worktree instructions."""
import json, sys
pid = sys.argv[1]
for l in open('/verif/properties.jsonl'):
    p = json.loads(l)
    if p['id'] == pid:
        break
files = ", ".join(p['anchors'].get('files', []))
mech = "; ".join("%s (%s)" % (m['name'], m['where']) for m in p['anchors'].get('mechanism', []))
print(f"""You are testing how well a verification suite detects regressions in the Go repository projectcalico/calico (pinned commit at /repo; builds offline; there is NO network). You work ONLY in your own scratch git worktree; never modify /repo itself and do not read or use anything under /verif.

Set up:  git -C /repo worktree add --detach /tmp/seed-{pid} HEAD   (work only inside /tmp/seed-{pid}; output goes to /tmp/seed-{pid}-out/)
Go env for every command: export GOFLAGS=-mod=mod GOPROXY=off  (do NOT set GOTOOLCHAIN or GOSUMDB; the default toolchain is right). Packages that import felix/bpf/libbpf (felix/routetable, felix/dataplane/linux, felix/bpf/proxy, felix/bpf/polprog, felix/bpf/conntrack) only build with CGO_ENABLED=0; use CGO_ENABLED=0 for those.

The semantic property (this text is all you are given about it):
  Title: {p['title']}
  Statement: {p['statement']}
  Holds over: {p['quantifier']['text']}
  Code it is anchored in: {files}
  Mechanisms: {mech}

TASK: write a realistic change to the repository's non-test source code that BREAKS this property while the repository still compiles and the existing tests of the affected package(s) (and of packages that directly depend on the changed behaviour, where quick to run) still pass, unedited. It must look like a plausible developer mistake (refactoring slip, off-by-one, missing case, wrong order of two steps, forgotten re-check after a retry, stale cache, wrong comparison...), not sabotage. Crucially it must need something SPECIFIC to manifest — a particular interleaving, a crash or fault at a particular point, a multi-step sequence of operations, an unusual input, or two cooperating sites that each look fine alone — not something that ordinary use would expose at once. Then write a demonstration (a Go test file or a small program placed in the worktree) that FAILS with your change and PASSES without it, showing the property violated.

Produce, if you can, TWO different such changes (different mechanisms / manifestation needs). For each change k in 1,2 write:
  /tmp/seed-{pid}-out/change<k>/patch.diff   — `git diff` of the source change ONLY (not the demonstration)
  /tmp/seed-{pid}-out/change<k>/demo/...      — the demonstration file(s), with their intended path inside the repo noted
  /tmp/seed-{pid}-out/change<k>/README.md     — what the change is, why it breaks the property, what it needs in order to manifest, exact commands you ran: (a) existing tests of the affected packages passing with the change, (b) the demonstration failing with the change, (c) the demonstration passing without it.
Verify (a), (b), (c) yourself by actually running them. When finished leave the worktree CLEAN (git -C /tmp/seed-{pid} checkout -- . ; remove untracked demo files) but do NOT remove the worktree directory itself — remove only build outputs you created. Final answer: under 200 words, summarising each change and the three verification results.""")
