#!/bin/bash
# usage: recheck_seed.sh <seed dir name, e.g. C07-2> [check id (default: the seed's property)] ["history text"]
# Re-runs a /verif check against a kept seeded change (scratch worktree outside /repo) and updates meta.json.
set -u
seed=$1; prop=${2:-${seed%%-*}}; hist=${3:-}
wt=/tmp/rs-$seed-$$
git -C /repo worktree add -q --detach $wt HEAD || exit 2
git -C $wt apply /verif/seeded/$seed/patch.diff || { echo "patch does not apply"; git -C /repo worktree remove --force $wt; exit 2; }
cd /verif
VERIF_REPO=$wt ./verif check $prop > /verif/.work/seedlogs/recheck-$seed-$prop.log 2>&1; rc=$?
grep -m2 "VIOLATION\|HARNESS-ERROR\|KNOWN-FINDING" /verif/.work/seedlogs/recheck-$seed-$prop.log
echo "RECHECK $seed check=$prop rc=$rc"
git -C /repo worktree remove --force $wt
h=$(echo -n $wt | sha1sum | cut -c1-8); rm -rf /verif/.bin-$h /verif/.work/mod-$h
python3 - "$seed" "$prop" "$rc" "$hist" <<'PY'
import json, sys
seed, prop, rc, hist = sys.argv[1:5]; rc = int(rc)
p = '/verif/seeded/%s/meta.json' % seed
d = json.load(open(p))
own = d['property'] == prop
if own:
    if not d['check'].get('caught') and rc == 1:
        d.setdefault('history', hist or 'missed by the first version of the check (rc=%s); reported after strengthening' % d['check'].get('rc'))
    d['check']['rc'] = rc; d['check']['caught'] = rc == 1
elif rc == 1:
    d['check']['caught_by_other_check'] = prop
    if hist: d['history'] = hist
json.dump(d, open(p, 'w'), indent=1)
PY
