#!/bin/bash
# usage: verify_seed.sh <prop> <changedir> <demo dest dir rel. to repo> "<pkgs for existing tests>" [cgo0]
# Confirms a seeded change: compiles, existing tests of the given packages pass with it, the demonstration
# fails with it and passes without it; then runs the /verif check for <prop> against the changed tree.
set -u
prop=$1; chg=$2; dst=$3; pkgs=$4; cgo=${5:-}
wt=/tmp/vw-$prop-$$
export GOFLAGS="-mod=mod ${EXTRA_GOFLAGS:-}" GOPROXY=off
[ "$cgo" = cgo0 ] && export CGO_ENABLED=0
git -C /repo worktree add -q --detach $wt HEAD || exit 2
res() { echo "SEED-RESULT $prop $(basename $chg) $1"; }
cd $wt
moddir=${MODDIR:-.}
git apply $chg/patch.diff || { res "patch-does-not-apply"; git -C /repo worktree remove --force $wt; exit 2; }
if (cd $moddir && go test -vet=off -count=1 $pkgs) > $wt/.t_existing.log 2>&1; then ex=pass; else ex=FAIL; fi
mkdir -p $moddir/$dst; cp $chg/demo/*.go $moddir/$dst/ 2>/dev/null
runre=$(grep -h "^func Test" $chg/demo/*.go | sed 's/func \(Test[A-Za-z0-9_]*\).*/\1/' | paste -sd'|')
runargs=(-run "^($runre)\$")
if [ -z "$runre" ]; then runargs=("-ginkgo.focus=${FOCUS:-SEED}"); fi
if (cd $moddir && go test -vet=off -count=1 ./$dst/ "${runargs[@]}") > $wt/.t_demo_with.log 2>&1; then dw=pass; else dw=fail; fi
git apply -R $chg/patch.diff
if (cd $moddir && go test -vet=off -count=1 ./$dst/ "${runargs[@]}") > $wt/.t_demo_without.log 2>&1; then dwo=pass; else dwo=fail; fi
for f in $chg/demo/*.go; do rm -f $moddir/$dst/$(basename $f); done
git apply $chg/patch.diff
cd /verif
if [ -n "${SKIP_CHECK:-}" ]; then rc=$SKIP_CHECK; echo skipped > $wt/.check.log; else VERIF_REPO=$wt ./verif check $prop > $wt/.check.log 2>&1; rc=$?; fi
grep -m2 "VIOLATION\|HARNESS-ERROR\|KNOWN-FINDING" $wt/.check.log
res "existing=$ex demo_with=$dw demo_without=$dwo check_rc=$rc"
mkdir -p /verif/.work/seedlogs && cp $wt/.check.log /verif/.work/seedlogs/$prop-$(basename $chg).log
tail -3 $wt/.t_existing.log | head -3
git -C /repo worktree remove --force $wt
h=$(echo -n $wt | sha1sum | cut -c1-8); rm -rf /verif/.bin-$h /verif/.work/mod-$h
