#!/bin/bash
# run every claimed check's thorough tier, 3 at a time; prints one line per check
cd "$(dirname "$0")/.."
ids="$*"
[ -z "$ids" ] && ids=$(python3 -c "import json;print(' '.join(c['property_id'] for c in json.load(open('MANIFEST.json'))['checks']))")
mkdir -p .work/thorough
echo $ids | tr ' ' '\n' | xargs -P 3 -I{} bash -c 't0=$(date +%s); ./verif check {} --tier thorough > .work/thorough/{}.log 2>&1; rc=$?; echo "THOROUGH {} rc=$rc wall=$(( $(date +%s)-t0 ))s $(grep -m1 "VIOLATION\|HARNESS-ERROR" .work/thorough/{}.log | cut -c1-160)"'
