#!/usr/bin/env python3
"""keep_seed.py <prop> <changedir> <name> <result-line> [needs...]: copy a confirmed seeded change into /verif/seeded/<name>/"""
import json, os, shutil, sys
prop, chg, name, result = sys.argv[1:5]
dst = os.path.join('/verif/seeded', name)
if os.path.isdir(dst):
    shutil.rmtree(dst)
os.makedirs(dst)
shutil.copy(os.path.join(chg, 'patch.diff'), dst)
shutil.copytree(os.path.join(chg, 'demo'), os.path.join(dst, 'demo'))
readme = open(os.path.join(chg, 'README.md')).read()
open(os.path.join(dst, 'README.md'), 'w').write(readme)
kv = dict(x.split('=') for x in result.split() if '=' in x)
meta = {"property": prop, "origin": "independent seeding sub-agent given only the property text and a scratch worktree",
        "needs_to_manifest": sys.argv[5] if len(sys.argv) > 5 else "see README.md",
        "confirmed_by_lead": {"existing_tests_with_change": kv.get("existing"), "demo_with_change": kv.get("demo_with"),
                              "demo_without_change": kv.get("demo_without")},
        "check": {"cmd": "VERIF_REPO=<worktree with patch> ./verif check %s" % prop, "rc": int(kv.get("check_rc", -1)),
                  "caught": kv.get("check_rc") == "1"},
        "ran": "tools/verify_seed.sh (scratch worktree outside /repo, removed afterwards)"}
json.dump(meta, open(os.path.join(dst, 'meta.json'), 'w'), indent=1)
print("kept", dst, meta["check"])
