#!/bin/bash
# accept.sh Cxx...: run quick check (seed from $SEED, default 1) on /repo HEAD; on rc=0 + valid evidence add to tools/claimed.txt
cd /verif
for id in "$@"; do
  t0=$(date +%s)
  VERIF_SEED=${SEED:-1} ./verif check $id > .work/accept-$id.log 2>&1; rc=$?
  t1=$(date +%s)
  ok=no
  if [ $rc = 0 ] && /opt/veriftools/pyvenv/bin/python - $id <<'PY'
import json, jsonschema, sys
ev = json.load(open('/verif/evidence/%s.json' % sys.argv[1]))
jsonschema.validate(ev, json.load(open('/root/.vp/EVIDENCE.schema.json')))
c = ev['coverage']
assert ev['level'] != 'model_checking' or (c.get('states', 0) >= 1 and c.get('transitions', 0) >= 1 and c.get('samples')), 'model_checking keys'
PY
  then ok=yes; grep -qx $id tools/claimed.txt || echo $id >> tools/claimed.txt; fi
  kf=$(grep -c "^KNOWN-FINDING" .work/accept-$id.log)
  echo "ACCEPT $id rc=$rc evidence_ok=$ok wall=$((t1-t0))s known_findings=$kf $(grep -m1 'VIOLATION\|HARNESS-ERROR' .work/accept-$id.log | cut -c1-200)"
done
