#!/usr/bin/env python3
import json
import os
import sys

sys.path.insert(0, os.path.dirname(os.path.abspath(__file__)))
import manifest_src as S  # noqa: E402

ROOT = os.path.dirname(os.path.dirname(os.path.abspath(__file__)))
ids = [json.loads(l)["id"] for l in open(os.path.join(ROOT, "properties.jsonl"))]
hooks_commits = []
hp = os.path.join(ROOT, "tools", "hook_commits.txt")
if os.path.exists(hp):
    hooks_commits = [l.split()[0] for l in open(hp) if l.strip()]
mods = ". api lib/datastructures lib/httpmachinery lib/kind lib/logrusr lib/std"
man = {
    "version": 1,
    "setup_cmd": "./verif setup",
    "hooks": {
        "guard": "verif",
        "enable": "go build/test -tags verif (harness drivers, and `go test -overlay` in-package drivers, are built with -tags verif; hook files are //go:build verif)",
        "baseline_off_cmd": "for m in %s; do (cd /repo/$m && go test -mod=mod -json -vet=off -count=1 -timeout 25m ./...); done" % mods,
        "source_commits": hooks_commits,
        "add_only": True,
    },
    "engines": [
        {"name": "verif", "path": "/verif/verif", "serves_properties": sorted(S.CLAIMED),
         "kind_free_text": "python orchestrator: TLC design leg, TLC behaviour generation, Go drivers on the real code, TLC trace validation"},
    ],
    "checks": [],
    "not_applicable": [],
    "notes": "See DESIGN.md. Exit 2 from a check means a harness problem (build, TLC resource, non-reproduced rejection) and is never a verdict.",
}
for i in ids:
    if i in S.CLAIMED:
        c = S.CLAIMED[i]
        man["checks"].append({
            "property_id": i,
            "quick_cmd": "./verif check %s --tier quick" % i,
            "thorough_cmd": "./verif check %s --tier thorough" % i,
            "evidence_file": "/verif/evidence/%s.json" % i,
            "replay_cmd_template": "./verif check %s --replay {path}" % i,
            "engine": "verif",
            "level_claimed": {"category": c.get("category", "model_checking"), "text": c["text"], "design_ref": c.get("design_ref", "")},
            "level_note": c.get("note", S.COMMON_NOTE),
            "technique": c["technique"],
        })
    else:
        man["not_applicable"].append({"property_id": i, "reason": S.NOT_APPLICABLE.get(i, S.NOT_YET)})
json.dump(man, open(os.path.join(ROOT, "MANIFEST.json"), "w"), indent=1)
print("claimed:", len(man["checks"]), "not_applicable:", len(man["not_applicable"]))
