#!/opt/veriftools/pyvenv/bin/python
import glob, json, jsonschema, sys
jsonschema.validate(json.load(open('/verif/MANIFEST.json')), json.load(open('/root/.vp/MANIFEST.schema.json')))
sch = json.load(open('/root/.vp/EVIDENCE.schema.json'))
for f in sorted(glob.glob('/verif/evidence/*.json')):
    jsonschema.validate(json.load(open(f)), sch)
print('manifest + %d evidence files valid' % len(glob.glob('/verif/evidence/*.json')))
