#!/usr/bin/env python3
"""Re-insert tools/design_sec10.md (with a fresh status table) as section 10 of DESIGN.md."""
import subprocess
tbl = subprocess.check_output(['python3', '/verif/tools/mkstatus.py'], text=True)
import glob, json, os
first, later, other, missed, notviol = [], [], [], [], []
for m in sorted(glob.glob('/verif/seeded/C*/meta.json')):
    d = json.load(open(m)); n = os.path.basename(os.path.dirname(m))
    if d['check'].get('caught') and 'history' not in d:
        first.append(n)
    elif d['check'].get('caught'):
        later.append('%s (%s)' % (n, d['history'].split(';')[0][:230]))
    elif d.get('lead_assessment'):
        notviol.append('%s (%s)' % (n, d['lead_assessment'][:420]))
    elif d['check'].get('caught_by_other_check'):
        other.append('%s (reported by %s: %s)' % (n, d['check']['caught_by_other_check'], d.get('history', '')[:200]))
    else:
        missed.append('%s (%s)' % (n, d.get('needs_to_manifest', '')[:200]))
summ = '* **%d seeded changes kept** (two per property from independent sub-agents, plus a third, "subtler" round of one change each for C09 C16 C21 C26 C36 C42 C29 C38).\n' % (len(first) + len(later) + len(other) + len(missed) + len(notviol))
summ += '* reported at the first run (%d): %s.\n' % (len(first), ', '.join(first))
summ += '* reported after the check was strengthened (%d):\n' % len(later) + ''.join('  * %s\n' % x for x in later)
if other:
    summ += '* not visible to the property\'s own check, reported by a sibling check (%d):\n' % len(other) + ''.join('  * %s\n' % x for x in other)
if notviol:
    summ += '* kept but judged not to break the property as stated (%d):\n' % len(notviol) + ''.join('  * %s\n' % x for x in notviol)
summ += ('* still missed (%d):\n' % len(missed) + ''.join('  * %s\n' % x for x in missed)) if missed else '* none is missed at the time of writing.\n'
sec = open('/verif/tools/design_sec10.md').read().replace('STATUS_TABLE', tbl).replace('SEED_SUMMARY', summ)
p = '/verif/DESIGN.md'
s = open(p).read()
bar = '-' * 99
marker = bar + '\n\n## Appendix A.'
start = bar + '\n\n## 10. Build report'
if start in s:
    s = s[:s.index(start)] + s[s.index(marker):]
s = s.replace(marker, sec + marker)
open(p, 'w').write(s)
print('DESIGN.md section 10 regenerated')
