#!/usr/bin/env python3
"""Re-insert tools/design_sec10.md (with a fresh status table) as section 10 of DESIGN.md."""
import subprocess
tbl = subprocess.check_output(['python3', '/verif/tools/mkstatus.py'], text=True)
sec = open('/verif/tools/design_sec10.md').read().replace('STATUS_TABLE', tbl)
p = '/verif/DESIGN.md'
s = open(p).read()
bar = '-' * 99
marker = bar + '\n\n## Appendix A.'
start = bar + '\n\n## 10. Build report'
if start in s:
    s = s[:s.index(start)] + s[s.index(marker):]
s = s.replace(marker, sec + marker)
open(p, 'w').write(s)
print('DESIGN.md section 10 regenerated')
