//go:build verif

// In-package driver for the DYNAMIC leg of C28 (injected with `go test -overlay`).  One trace = one
// TLC-generated history of datastore updates and renders (specs/clusterroutes/Gen_DynRoutes.tla) or a
// seeded random one, replayed on
//   - a REAL confd client: updates go through the real (unexported) onUpdates - the function the
//     syncer goroutine calls - and renders through the public GetBirdBGPConfig(4).  An update that
//     lands "mid-render" is applied from a logrus hook on the debug line processIPPools prints right
//     after it has derived the cluster-route policy: the real code holds no lock at that point;
//   - a REAL Felix calculation graph (EncapsulationResolver inside) with an EventSequencer; pool updates
//     are fed before and after OnStatusUpdated(InSync); every *proto.Encapsulation message that reaches
//     the dataplane connector is recorded.
// Nothing is judged here: "quiesce" only marks the places where the driver has issued a render call
// after its last update (T_DynRoutes re-checks that from the events before it judges).
package calico

import (
	"encoding/json"
	"fmt"
	"io"
	"math/rand"
	"net"
	"net/netip"
	"os"
	"strconv"
	"strings"
	"sync"
	"testing"

	v3 "github.com/projectcalico/api/pkg/apis/projectcalico/v3"
	log "github.com/sirupsen/logrus"
	metav1 "k8s.io/apimachinery/pkg/apis/meta/v1"

	"github.com/projectcalico/calico/felix/calc"
	felixconfig "github.com/projectcalico/calico/felix/config"
	"github.com/projectcalico/calico/felix/proto"
	internalapi "github.com/projectcalico/calico/libcalico-go/lib/apis/internalapi"
	"github.com/projectcalico/calico/libcalico-go/lib/backend/api"
	"github.com/projectcalico/calico/libcalico-go/lib/backend/model"
	cnet "github.com/projectcalico/calico/libcalico-go/lib/net"
)

type c28DynOp struct {
	Op    string `json:"op"`
	Felix string `json:"felix,omitempty"`
	BGP   string `json:"bgp,omitempty"`
	P     string `json:"p,omitempty"`
	Encap string `json:"encap,omitempty"`
	V     string `json:"v,omitempty"`
}

// c28MidHook runs fn at the point in processIPPools where the policy has just been read.
type c28MidHook struct{ fn func() }

func (h *c28MidHook) Levels() []log.Level { return []log.Level{log.DebugLevel} }
func (h *c28MidHook) Fire(e *log.Entry) error {
	if h.fn != nil && strings.HasPrefix(e.Message, "BIRD's responsibility for programming cluster routes") {
		fn := h.fn
		h.fn = nil
		fn()
	}
	return nil
}

type c28DynWorld struct {
	t    *testing.T
	lg   *c28Log
	rnd  *rand.Rand
	hook *c28MidHook
	// confd
	cl *client
	// felix
	vf      *calc.ValidationFilter
	cg      *calc.CalcGraph
	es      *calc.EventSequencer
	encaps  []*proto.Encapsulation
	known   map[string]bool
	cidr    map[string]string
	updates int // number of updates applied so far
}

func c28BGPConfig(v string, rnd *rand.Rand) *v3.BGPConfiguration {
	cfg := v3.NewBGPConfiguration()
	cfg.Name = "default"
	switch v {
	case "absent":
	case "unrecognised":
		s := []string{"SomethingFromANewerAPI", "EnabledVXLANOnly", "On"}[rnd.Intn(3)]
		cfg.Spec.ProgramClusterRoutes = &s
	default:
		s := v
		cfg.Spec.ProgramClusterRoutes = &s
	}
	return cfg
}

func newC28DynWorld(t *testing.T, lg *c28Log, rnd *rand.Rand, hook *c28MidHook, init c28DynOp) *c28DynWorld {
	w := &c28DynWorld{t: t, lg: lg, rnd: rnd, hook: hook, known: map[string]bool{}, cidr: map[string]string{}}
	n := 16 + rnd.Intn(200)
	for i := 1; i <= 4; i++ {
		w.cidr[fmt.Sprintf("p%d", i)] = fmt.Sprintf("10.%d.0.0/16", n+i)
	}
	// ---- confd: the fields NewCalicoClient initialises that onUpdates / GetBirdBGPConfig touch
	NodeName = "verif-node"
	cl := &client{
		cache: map[string]string{
			fmt.Sprintf("/calico/bgp/v1/host/%s/ip_addr_v4", NodeName): "172.16.0.1",
			fmt.Sprintf("/calico/bgp/v1/host/%s/network_v4", NodeName): "172.16.0.0/24",
			"/calico/bgp/v1/global/as_num":                             "64512",
		},
		peeringCache:             map[string]string{},
		cacheRevision:            1,
		revisionsByPrefix:        map[string]uint64{"/calico/v1/ipam/v4/pool": 1, "/calico/bgpconfig": 1},
		nodeLabelManager:         newNodeLabelManager(),
		bgpPeers:                 map[string]*v3.BGPPeer{},
		sourceReady:              map[string]bool{},
		nodeListenPorts:          map[string]uint16{},
		nodeIPs:                  map[string]struct{}{},
		programmedRouteRefCount:  map[string]int{},
		ExternalIPRouteIndex:     NewRouteIndex(),
		ClusterIPRouteIndex:      NewRouteIndex(),
		LoadBalancerIPRouteIndex: NewRouteIndex(),
		configCache:              make(map[int]*bgpConfigCache),
		syncedOnce:               true,
	}
	cl.watcherCond = sync.NewCond(&cl.cacheLock)
	if init.BGP == "absent" && rnd.Intn(2) == 0 {
		cl.globalBGPConfig = nil // no default BGPConfiguration at all
	} else {
		cl.globalBGPConfig = c28BGPConfig(init.BGP, rnd)
	}
	w.cl = cl
	// ---- Felix: configuration resolved at start of day, then the calculation graph
	conf := felixconfig.New()
	if _, err := conf.UpdateFrom(map[string]string{"FelixHostname": "verif-local"}, felixconfig.EnvironmentVariable); err != nil {
		t.Fatal(err)
	}
	raw := init.Felix
	switch init.Felix {
	case "absent":
		raw = ""
	case "unrecognised":
		raw = []string{"SomethingFromANewerAPI", "EnabledVXLANOnly", "On"}[rnd.Intn(3)]
	}
	if raw != "" {
		src := []felixconfig.Source{felixconfig.ConfigFile, felixconfig.EnvironmentVariable}[rnd.Intn(2)]
		if _, err := conf.UpdateFrom(map[string]string{"ProgramClusterRoutes": raw}, src); err != nil {
			t.Fatal(err)
		}
	}
	ec := calc.NewEncapsulationCalculator(conf, &model.KVPairList{})
	conf.Encapsulation = felixconfig.Encapsulation{IPIPEnabled: ec.IPIPEnabled(), VXLANEnabled: ec.VXLANEnabled(),
		VXLANEnabledV6: ec.VXLANEnabledV6(), NoEncapNeeded: ec.NoEncapNeeded()}
	w.es = calc.NewEventSequencer(conf)
	w.es.Callback = func(ev any) {
		if e, ok := ev.(*proto.Encapsulation); ok {
			w.encaps = append(w.encaps, e)
		}
	}
	w.cg = calc.NewCalculationGraph(w.es, calc.NewLookupsCache(), conf, func() {})
	w.vf = calc.NewValidationFilter(w.cg, conf)
	node := func(name, v4 string) model.KVPair {
		return model.KVPair{Key: model.ResourceKey{Name: name, Kind: internalapi.KindNode},
			Value: &internalapi.Node{ObjectMeta: metav1.ObjectMeta{Name: name}, Spec: internalapi.NodeSpec{BGP: &internalapi.NodeBGPSpec{IPv4Address: v4}}}}
	}
	for _, kv := range []model.KVPair{node("verif-local", "172.16.0.1/24"), node("verif-remote", "172.16.0.2/24")} {
		w.vf.OnUpdates([]api.Update{{KVPair: kv, UpdateType: api.UpdateTypeKVNew}})
	}
	lg.emit("reset", map[string]any{"dyn": true, "felix": init.Felix, "bgp": init.BGP,
		"sw": map[string]any{"ipip": conf.ProgramIPIPClusterRoutes(), "noencap": conf.ProgramNoEncapClusterRoutes()}})
	w.flushFelix()
	return w
}

func (w *c28DynWorld) flushFelix() {
	w.cg.Flush()
	w.es.Flush()
	for _, e := range w.encaps {
		w.lg.emit("encap", map[string]any{"ipip": e.IpipEnabled, "vxlan": e.VxlanEnabled, "vxlanv6": e.VxlanEnabledV6, "noencap": e.NoEncapEnabled})
	}
	w.encaps = nil
}

// update applies one datastore update to both consumers, as the two syncers would deliver it.
func (w *c28DynWorld) update(op c28DynOp) {
	switch op.Op {
	case "pool_set", "pool_del":
		cidr := w.cidr[op.P]
		key := model.IPPoolKey{CIDR: netip.MustParsePrefix(cidr)}
		var u api.Update
		if op.Op == "pool_del" {
			if !w.known[cidr] {
				return
			}
			u = api.Update{KVPair: model.KVPair{Key: key}, UpdateType: api.UpdateTypeKVDeleted}
			delete(w.known, cidr)
			w.lg.emit("pool_del", map[string]any{"pool": cidr})
		} else {
			ipipMode, vxlanMode := c28Modes(op.Encap)
			_, ipn, _ := net.ParseCIDR(cidr)
			ut := api.UpdateTypeKVNew
			if w.known[cidr] {
				ut = api.UpdateTypeKVUpdated
			}
			u = api.Update{KVPair: model.KVPair{Key: key, Value: &model.IPPool{CIDR: cnet.IPNet{IPNet: *ipn}, IPIPMode: ipipMode, VXLANMode: vxlanMode}}, UpdateType: ut}
			w.known[cidr] = true
			w.lg.emit("pool_set", map[string]any{"pool": cidr, "encap": op.Encap})
		}
		w.updates++
		w.cl.onUpdates([]api.Update{u}, false)
		// Felix gets its own copy of the value (two syncers, two decodes)
		fu := u
		if p, ok := u.Value.(*model.IPPool); ok {
			cp := *p
			fu.Value = &cp
		}
		w.vf.OnUpdates([]api.Update{fu})
		w.flushFelix()
	case "bgp":
		w.lg.emit("bgp", map[string]any{"v": op.V})
		w.updates++
		kv := model.KVPair{Key: model.ResourceKey{Kind: v3.KindBGPConfiguration, Name: "default"}}
		ut := api.UpdateTypeKVUpdated
		if op.V == "absent" && w.rnd.Intn(2) == 0 && w.cl.globalBGPConfig != nil {
			ut = api.UpdateTypeKVDeleted // the default BGPConfiguration is deleted
		} else {
			kv.Value = c28BGPConfig(op.V, w.rnd)
		}
		w.cl.onUpdates([]api.Update{{KVPair: kv, UpdateType: ut}}, false)
	case "insync":
		w.lg.emit("insync", nil)
		w.vf.OnStatusUpdated(api.InSync)
		w.flushFelix()
	}
}

// render = one call of GetBirdBGPConfig(4); mid are the updates that land while it is in flight.
func (w *c28DynWorld) render(mid []c28DynOp) {
	before := w.updates
	w.hook.fn = func() {
		w.lg.emit("render_start", nil)
		for _, op := range mid {
			w.update(op)
		}
	}
	cfg, err := w.cl.GetBirdBGPConfig(4)
	notFired := w.hook.fn != nil
	w.hook.fn = nil
	if err != nil {
		w.lg.emit("render_error", map[string]any{"err": err.Error()})
		return
	}
	if notFired {
		// the call did not build a config (cache hit): the updates meant to straddle it come after it
		defer func() {
			for _, op := range mid {
				w.update(op)
			}
		}()
	}
	stmts := []map[string]any{}
	for _, s := range cfg.KernelFilterForIPPools {
		m := c28StmtRe.FindStringSubmatch(s)
		if m == nil {
			w.t.Fatalf("cannot read kernel filter statement %q", s)
		}
		stmts = append(stmts, map[string]any{"cidr": m[1], "action": m[3], "extra": m[2]})
	}
	w.lg.emit("render", map[string]any{"statements": stmts, "built": !notFired})
	if w.updates == before { // no update has landed since this call began
		w.lg.emit("quiesce", nil)
	}
}

func (w *c28DynWorld) run(ops []c28DynOp) {
	defer func() {
		if r := recover(); r != nil {
			w.lg.emit("panic", map[string]any{"value": fmt.Sprint(r)})
		}
	}()
	lastCallAt := -1
	for i := 0; i < len(ops); i++ {
		op := ops[i]
		switch op.Op {
		case "render_start":
			j := i + 1
			var mid []c28DynOp
			for j < len(ops) && ops[j].Op != "render_finish" && ops[j].Op != "end" {
				mid = append(mid, ops[j])
				j++
			}
			lastCallAt = w.updates
			w.render(mid)
			i = j
		case "render_cached":
			lastCallAt = w.updates
			w.render(nil)
		case "render_finish", "end", "init":
		default:
			w.update(op)
		}
	}
	// the render that the last update's notification triggers
	if lastCallAt != w.updates {
		w.render(nil)
	}
}

func TestVerifC28Dyn(t *testing.T) {
	behPath, outPath := os.Getenv("VERIF_BEH"), os.Getenv("VERIF_OUT")
	if outPath == "" {
		t.Skip("VERIF_OUT not set")
	}
	hook := &c28MidHook{}
	oldHooks := log.StandardLogger().ReplaceHooks(make(log.LevelHooks))
	oldLevel := log.GetLevel()
	log.SetOutput(io.Discard)
	log.SetLevel(log.DebugLevel)
	log.AddHook(hook)
	defer func() {
		log.SetLevel(oldLevel)
		log.StandardLogger().ReplaceHooks(oldHooks)
	}()
	seed, _ := strconv.ParseInt(os.Getenv("VERIF_SEED"), 10, 64)
	nRandom, _ := strconv.Atoi(os.Getenv("VERIF_N"))
	var behs [][]c28DynOp
	if behPath != "" {
		b, err := os.ReadFile(behPath)
		if err != nil {
			t.Fatal(err)
		}
		if err := json.Unmarshal(b, &behs); err != nil {
			t.Fatal(err)
		}
	}
	f, err := os.Create(outPath)
	if err != nil {
		t.Fatal(err)
	}
	defer f.Close()
	lg := &c28Log{f: f}
	rnd := rand.New(rand.NewSource(seed))
	settings := []string{"Disabled", "Enabled", "EnabledIPIPOnly", "EnabledNoEncapOnly", "absent", "unrecognised"}
	encaps := []string{"vxlan", "vxlan-cross", "ipip", "ipip-cross", "none"}
	for i := 0; i < nRandom; i++ {
		// longer histories over 4 pools; a render straddles 0-2 updates
		b := []c28DynOp{{Op: "init", Felix: settings[rnd.Intn(6)], BGP: settings[rnd.Intn(6)]}}
		upd := func() c28DynOp {
			switch rnd.Intn(5) {
			case 0, 1:
				return c28DynOp{Op: "pool_set", P: fmt.Sprintf("p%d", 1+rnd.Intn(4)), Encap: encaps[rnd.Intn(5)]}
			case 2:
				return c28DynOp{Op: "pool_del", P: fmt.Sprintf("p%d", 1+rnd.Intn(4))}
			default:
				return c28DynOp{Op: "bgp", V: settings[rnd.Intn(6)]}
			}
		}
		insync := false
		for n := 6 + rnd.Intn(14); n > 0; n-- {
			switch k := rnd.Intn(10); {
			case k < 5:
				b = append(b, upd())
			case k < 8:
				b = append(b, c28DynOp{Op: "render_start"})
				for m := rnd.Intn(3); m > 0; m-- {
					b = append(b, upd())
				}
				b = append(b, c28DynOp{Op: "render_finish"})
			case k < 9 && !insync:
				insync = true
				b = append(b, c28DynOp{Op: "insync"})
			default:
				b = append(b, c28DynOp{Op: "render_cached"})
			}
		}
		behs = append(behs, b)
	}
	for _, b := range behs {
		if len(b) == 0 || b[0].Op != "init" {
			continue
		}
		lg.t++
		w := newC28DynWorld(t, lg, rnd, hook, b[0])
		w.run(b[1:])
	}
}
