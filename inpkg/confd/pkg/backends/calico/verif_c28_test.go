//go:build verif

// In-package driver for C28 (injected with `go test -overlay`).  For every TLC-generated case
// (Felix setting, BGP setting, pool encapsulation, IP version) it asks the REAL two sides:
//   - confd: processIPPools() on a client whose default BGPConfiguration carries the BGP setting and
//     whose cache holds the pool; the rendered kernel-programming filter statements are exported as
//     syntax (CIDR, action);
//   - Felix: felix/config (UpdateFrom + the two accessors), felix/calc's EncapsulationCalculator and a
//     real calculation graph fed with the pool, the two nodes and a block of the remote node; the
//     emitted RouteUpdates are recorded.
// Nothing is judged here.
package calico

import (
	"encoding/json"
	"fmt"
	"io"
	"math/rand"
	"net"
	"net/netip"
	"os"
	"regexp"
	"strconv"
	"testing"

	v3 "github.com/projectcalico/api/pkg/apis/projectcalico/v3"
	log "github.com/sirupsen/logrus"
	metav1 "k8s.io/apimachinery/pkg/apis/meta/v1"

	"github.com/projectcalico/calico/confd/pkg/backends/types"
	"github.com/projectcalico/calico/felix/calc"
	felixconfig "github.com/projectcalico/calico/felix/config"
	"github.com/projectcalico/calico/felix/proto"
	internalapi "github.com/projectcalico/calico/libcalico-go/lib/apis/internalapi"
	"github.com/projectcalico/calico/libcalico-go/lib/backend/api"
	"github.com/projectcalico/calico/libcalico-go/lib/backend/encap"
	"github.com/projectcalico/calico/libcalico-go/lib/backend/model"
	cnet "github.com/projectcalico/calico/libcalico-go/lib/net"
)

type c28Case struct {
	Op    string `json:"op"`
	Felix string `json:"felix"`
	BGP   string `json:"bgp"`
	Encap string `json:"encap"`
	IPv   int    `json:"ipv"`
}

type c28Log struct {
	f *os.File
	t int
}

func (l *c28Log) emit(ev string, fields map[string]any) {
	m := map[string]any{"ev": ev, "t": l.t}
	for k, v := range fields {
		m[k] = v
	}
	b, err := json.Marshal(m)
	if err != nil {
		panic(err)
	}
	l.f.Write(append(b, '\n'))
}

var c28StmtRe = regexp.MustCompile(`^\s*if \(net ~ ([0-9a-fA-F:./]+)\) then \{ (.*?)\s*(accept|reject); \}`)

func c28Modes(e string) (ipip, vxlan encap.Mode) {
	ipip, vxlan = encap.Never, encap.Never
	switch e {
	case "vxlan":
		vxlan = encap.Always
	case "vxlan-cross":
		vxlan = encap.CrossSubnet
	case "ipip":
		ipip = encap.Always
	case "ipip-cross":
		ipip = encap.CrossSubnet
	}
	return
}

// birdSide renders the kernel-programming filter with the real processIPPools.
func c28BirdSide(t *testing.T, c c28Case, poolCIDR string, rnd *rand.Rand) map[string]any {
	ipipMode, vxlanMode := c28Modes(c.Encap)
	_, ipn, _ := net.ParseCIDR(poolCIDR)
	pool := model.IPPool{CIDR: cnet.IPNet{IPNet: *ipn}, IPIPMode: ipipMode, VXLANMode: vxlanMode}
	raw, err := json.Marshal(pool)
	if err != nil {
		t.Fatal(err)
	}
	NodeName = "verif-node"
	cache := map[string]string{
		fmt.Sprintf("/calico/v1/ipam/v%d/pool/%s", c.IPv, poolCIDRKey(poolCIDR)): string(raw),
		fmt.Sprintf("/calico/bgp/v1/host/%s/network_v4", NodeName):                "172.16.0.0/24",
	}
	cl := &client{cache: cache, peeringCache: map[string]string{}, configCache: make(map[int]*bgpConfigCache)}
	switch c.BGP {
	case "absent":
		// either no default BGPConfiguration at all, or one without the field
		if rnd.Intn(2) == 0 {
			cl.globalBGPConfig = nil
		} else {
			cl.globalBGPConfig = v3.NewBGPConfiguration()
			cl.globalBGPConfig.Name = "default"
		}
	case "unrecognised":
		s := []string{"SomethingFromANewerAPI", "EnabledVXLANOnly", "On"}[rnd.Intn(3)]
		cl.globalBGPConfig = &v3.BGPConfiguration{ObjectMeta: metav1.ObjectMeta{Name: "default"}, Spec: v3.BGPConfigurationSpec{ProgramClusterRoutes: &s}}
	default:
		s := c.BGP
		cl.globalBGPConfig = &v3.BGPConfiguration{ObjectMeta: metav1.ObjectMeta{Name: "default"}, Spec: v3.BGPConfigurationSpec{ProgramClusterRoutes: &s}}
	}
	cfg := &types.BirdBGPConfig{NodeName: NodeName}
	if err := cl.processIPPools(cl.getBGPProcessorContext(), cfg, c.IPv); err != nil {
		t.Fatalf("processIPPools: %v", err)
	}
	stmts := []map[string]any{}
	for _, s := range cfg.KernelFilterForIPPools {
		m := c28StmtRe.FindStringSubmatch(s)
		if m == nil {
			t.Fatalf("cannot read kernel filter statement %q", s)
		}
		stmts = append(stmts, map[string]any{"cidr": m[1], "action": m[3], "extra": m[2]})
	}
	return map[string]any{"statements": stmts, "raw": append([]string{}, cfg.KernelFilterForIPPools...)}
}

func poolCIDRKey(cidr string) string {
	out := []byte(cidr)
	for i := range out {
		if out[i] == '/' {
			out[i] = '-'
		}
	}
	return string(out)
}

type c28Sink struct{ routes []map[string]any }

func (s *c28Sink) onEvent(ev any) {
	if r, ok := ev.(*proto.RouteUpdate); ok {
		s.routes = append(s.routes, map[string]any{"dst": r.Dst, "rtype": r.Types.String(), "pooltype": r.IpPoolType.String(), "node": r.DstNodeName})
	}
}

// felixSide runs the real felix/config + felix/calc for the pool.
func c28FelixSide(t *testing.T, c c28Case, poolCIDR, blockCIDR string, rnd *rand.Rand) map[string]any {
	conf := felixconfig.New()
	if _, err := conf.UpdateFrom(map[string]string{"FelixHostname": "verif-local"}, felixconfig.EnvironmentVariable); err != nil {
		t.Fatal(err)
	}
	src := []felixconfig.Source{felixconfig.DatastoreGlobal, felixconfig.DatastorePerHost, felixconfig.ConfigFile, felixconfig.EnvironmentVariable}[rnd.Intn(4)]
	raw := c.Felix
	switch c.Felix {
	case "absent":
		raw = ""
	case "unrecognised":
		raw = []string{"SomethingFromANewerAPI", "EnabledVXLANOnly", "On"}[rnd.Intn(3)]
	}
	// start of day: the daemon resolves the configuration from all sources before it builds the graph
	var cfgKVs []model.KVPair
	if raw != "" {
		if _, err := conf.UpdateFrom(map[string]string{"ProgramClusterRoutes": raw}, src); err != nil {
			t.Fatal(err)
		}
		// datastore configuration also flows through the calculation graph (which re-applies it to conf)
		switch src {
		case felixconfig.DatastoreGlobal:
			cfgKVs = append(cfgKVs, model.KVPair{Key: model.GlobalConfigKey{Name: "ProgramClusterRoutes"}, Value: raw})
		case felixconfig.DatastorePerHost:
			cfgKVs = append(cfgKVs, model.KVPair{Key: model.HostConfigKey{Hostname: "verif-local", Name: "ProgramClusterRoutes"}, Value: raw})
		}
	}
	ipipMode, vxlanMode := c28Modes(c.Encap)
	_, ipn, _ := net.ParseCIDR(poolCIDR)
	pool := &model.IPPool{CIDR: cnet.IPNet{IPNet: *ipn}, IPIPMode: ipipMode, VXLANMode: vxlanMode}
	poolKV := &model.KVPair{Key: model.IPPoolKey{CIDR: netip.MustParsePrefix(poolCIDR)}, Value: pool}
	// as felix/daemon does at start of day
	ec := calc.NewEncapsulationCalculator(conf, &model.KVPairList{KVPairs: []*model.KVPair{poolKV}})
	conf.Encapsulation = felixconfig.Encapsulation{IPIPEnabled: ec.IPIPEnabled(), VXLANEnabled: ec.VXLANEnabled(),
		VXLANEnabledV6: ec.VXLANEnabledV6(), NoEncapNeeded: ec.NoEncapNeeded()}

	sink := &c28Sink{}
	es := calc.NewEventSequencer(conf)
	es.Callback = sink.onEvent
	cg := calc.NewCalculationGraph(es, calc.NewLookupsCache(), conf, func() {})
	vf := calc.NewValidationFilter(cg, conf)
	node := func(name, v4, v6 string) *internalapi.Node {
		return &internalapi.Node{ObjectMeta: metav1.ObjectMeta{Name: name},
			Spec: internalapi.NodeSpec{BGP: &internalapi.NodeBGPSpec{IPv4Address: v4, IPv6Address: v6}}}
	}
	_, bn, _ := net.ParseCIDR(blockCIDR)
	aff := "host:verif-remote"
	block := &model.AllocationBlock{CIDR: cnet.IPNet{IPNet: *bn}, Affinity: &aff, Allocations: make([]*int, 8), Unallocated: []int{0, 1, 2, 3, 4, 5, 6, 7}}
	kvs := []model.KVPair{
		*poolKV,
		{Key: model.ResourceKey{Name: "verif-local", Kind: internalapi.KindNode}, Value: node("verif-local", "172.16.0.1/24", "fd00:16::1/64")},
		{Key: model.ResourceKey{Name: "verif-remote", Kind: internalapi.KindNode}, Value: node("verif-remote", "172.16.0.2/24", "fd00:16::2/64")},
		{Key: model.BlockKey{CIDR: netip.MustParsePrefix(blockCIDR)}, Value: block},
	}
	kvs = append(kvs, cfgKVs...)
	rnd.Shuffle(len(kvs), func(i, j int) { kvs[i], kvs[j] = kvs[j], kvs[i] })
	for _, kv := range kvs {
		vf.OnUpdates([]api.Update{{KVPair: kv, UpdateType: api.UpdateTypeKVNew}})
	}
	vf.OnStatusUpdated(api.InSync)
	cg.Flush()
	es.Flush()
	routes := sink.routes
	if routes == nil {
		routes = []map[string]any{}
	}
	return map[string]any{"value": conf.ProgramClusterRoutes, "ipip": conf.ProgramIPIPClusterRoutes(), "noencap": conf.ProgramNoEncapClusterRoutes(),
		"enc": map[string]any{"ipip": conf.Encapsulation.IPIPEnabled, "vxlan": conf.Encapsulation.VXLANEnabled,
			"vxlanv6": conf.Encapsulation.VXLANEnabledV6, "noencap": conf.Encapsulation.NoEncapNeeded},
		"routes": routes}
}

func TestVerifC28(t *testing.T) {
	log.SetOutput(io.Discard)
	log.SetLevel(log.PanicLevel)
	behPath, outPath := os.Getenv("VERIF_BEH"), os.Getenv("VERIF_OUT")
	if outPath == "" {
		t.Skip("VERIF_OUT not set")
	}
	seed, _ := strconv.ParseInt(os.Getenv("VERIF_SEED"), 10, 64)
	nRandom, _ := strconv.Atoi(os.Getenv("VERIF_N"))
	var behs [][]c28Case
	if behPath != "" {
		b, err := os.ReadFile(behPath)
		if err != nil {
			t.Fatal(err)
		}
		if err := json.Unmarshal(b, &behs); err != nil {
			t.Fatal(err)
		}
	}
	f, err := os.Create(outPath)
	if err != nil {
		t.Fatal(err)
	}
	defer f.Close()
	lg := &c28Log{f: f}
	rnd := rand.New(rand.NewSource(seed))
	run := func(c c28Case) {
		lg.t++
		// pool and remote block: varied but disjoint from the node subnet
		n := 16 + rnd.Intn(200)
		poolCIDR, blockCIDR := fmt.Sprintf("10.%d.0.0/16", n), fmt.Sprintf("10.%d.1.0/29", n)
		if c.IPv == 6 {
			poolCIDR, blockCIDR = fmt.Sprintf("fd%02x:beef::/64", n), fmt.Sprintf("fd%02x:beef:0:0:1::/125", n)
		}
		lg.emit("reset", map[string]any{"felix": c.Felix, "bgp": c.BGP, "encap": c.Encap, "ipv": c.IPv,
			"pool": poolCIDR, "block": blockCIDR, "remote": "verif-remote"})
		lg.emit("felix", c28FelixSide(t, c, poolCIDR, blockCIDR, rnd))
		lg.emit("bird", c28BirdSide(t, c, poolCIDR, rnd))
		lg.emit("verdict", nil)
	}
	for _, b := range behs {
		for _, c := range b {
			if c.Op == "case" {
				run(c)
			}
		}
	}
	settings := []string{"Disabled", "Enabled", "EnabledIPIPOnly", "EnabledNoEncapOnly", "absent", "unrecognised"}
	encaps := []string{"vxlan", "vxlan-cross", "ipip", "ipip-cross", "none"}
	for i := 0; i < nRandom; i++ {
		c := c28Case{Op: "case", Felix: settings[rnd.Intn(6)], BGP: settings[rnd.Intn(6)], Encap: encaps[rnd.Intn(5)], IPv: 4}
		if c.Encap != "ipip" && c.Encap != "ipip-cross" && rnd.Intn(3) == 0 {
			c.IPv = 6
		}
		run(c)
	}
}
