// In-package driver for C23 (injected with `go test -overlay`; /repo is not modified).
//
// It drives the REAL IPAM garbage collector (IPAMController: onUpdate/handleUpdate for block and node
// updates, allocationState.markDirtyPodDeleted, fullScanNextSync, syncIPAM) single-threadedly against
//   - a pod informer indexer (the cache), a client-go fake clientset whose pod GETs are answered from
//     the harness's true pod table (the API server), a node indexer, VM/VMI indexers;
//   - a recording IPAM client that owns the TRUE block store and applies ReleaseIPs /
//     ReleaseBlockAffinity / ReleaseHostAffinities to it the way the datastore would (handle and
//     sequence number must match), with optional injected failures;
// and records world changes, deliveries, harness clock readings around every sync and inside every
// IPAM call, and a projection of the controller's maps.  Grace periods are configured small
// (LeakGracePeriod, vmRecreationGracePeriod); sleeps are 0, >= 3 x pod grace or >= 3 x VM grace.
// Nothing is judged here: specs/ipamgc/T_GC.tla does.
package node

import (
	"bytes"
	"context"
	"encoding/json"
	"errors"
	"fmt"
	"math/rand"
	"net"
	"os"
	"sort"
	"strconv"
	"strings"
	"sync"
	"testing"
	"time"

	log "github.com/sirupsen/logrus"
	v1 "k8s.io/api/core/v1"
	apierrors "k8s.io/apimachinery/pkg/api/errors"
	metav1 "k8s.io/apimachinery/pkg/apis/meta/v1"
	"k8s.io/apimachinery/pkg/runtime"
	"k8s.io/apimachinery/pkg/runtime/schema"
	"k8s.io/apimachinery/pkg/types"
	k8sfake "k8s.io/client-go/kubernetes/fake"
	k8stesting "k8s.io/client-go/testing"
	"k8s.io/client-go/tools/cache"
	kubevirtv1 "kubevirt.io/api/core/v1"

	"github.com/projectcalico/calico/kube-controllers/pkg/config"
	"github.com/projectcalico/calico/libcalico-go/lib/apis/internalapi"
	bapi "github.com/projectcalico/calico/libcalico-go/lib/backend/api"
	"github.com/projectcalico/calico/libcalico-go/lib/backend/model"
	"github.com/projectcalico/calico/libcalico-go/lib/ipam"
	"github.com/projectcalico/calico/libcalico-go/lib/kubevirt"
	cnet "github.com/projectcalico/calico/libcalico-go/lib/net"
)

const (
	verifG  = 30 * time.Millisecond  // LeakGracePeriod
	verifGV = 240 * time.Millisecond // vmRecreationGracePeriod
	verifS  = 100 * time.Millisecond // short sleep: >= 3 x G, well below GV
	verifL  = 750 * time.Millisecond // long sleep: >= 3 x GV
	verifNS = "default"
)

// ---- true world ---------------------------------------------------------------------------------------

type verifAlloc struct {
	IP     string `json:"ip"`
	Handle string `json:"handle"`
	Seq    int    `json:"seq"`
	Kind   string `json:"kind"`
	Owner  string `json:"owner"`
	Node   string `json:"node"`
}

type verifBlock struct {
	aff    string
	allocs map[string]*verifAlloc // by ip
	seqno  int
	inc    int // incarnation: distinguishes a re-created block from its predecessor
}

type verifPod struct {
	node string
	ips  []string
}

type verifGC struct {
	buf  bytes.Buffer
	t    int
	base time.Time

	knodes map[string]bool
	pods   map[string]*verifPod
	vms    map[string]bool
	store  map[string]*verifBlock

	c      *IPAMController
	podIx  cache.Indexer
	nodeIx cache.Indexer
	vmIx   cache.Indexer
	nodes  *fakeNodeClient

	incs      int
	delivered map[string]int // block -> incarnation last delivered
	coalesce  bool           // deliver a re-created block as a plain update (re-list semantics)
	nostate   bool           // do not record the projection of the controller's maps

	failKind string // "ips" | "block" | "host" | "": which IPAM call fails during the running sync
}

func (d *verifGC) now() int { return int(time.Since(d.base) / time.Microsecond) }

func (d *verifGC) emit(ev string, f map[string]any) {
	m := map[string]any{"ev": ev, "t": d.t}
	for k, v := range f {
		m[k] = v
	}
	b, err := json.Marshal(m)
	if err != nil {
		panic(err)
	}
	d.buf.Write(b)
	d.buf.WriteByte('\n')
}

// ---- the recording IPAM client (owns the true block store) ------------------------------------------------

type verifIPAMClient struct {
	ipam.Interface
	d *verifGC
}

var errVerifInjected = errors.New("verif: injected datastore failure")

func (f *verifIPAMClient) ReleaseIPs(ctx context.Context, opts ...ipam.ReleaseOptions) ([]cnet.IP, []ipam.ReleaseOptions, error) {
	d := f.d
	tc := d.now()
	fail := d.failKind == "ips"
	recOpts := []any{}
	released := []any{}
	var out []ipam.ReleaseOptions
	touched := map[*verifBlock]bool{}
	for _, o := range opts {
		seq := -1
		if o.SequenceNumber != nil {
			seq = int(*o.SequenceNumber)
		}
		rec := map[string]any{"ip": o.Address, "handle": o.Handle, "seq": seq}
		recOpts = append(recOpts, rec)
		if fail {
			continue
		}
		// datastore: released if allocated with this handle and sequence number, or not allocated at all
		var blk *verifBlock
		var cur *verifAlloc
		for _, b := range d.store {
			if a, ok := b.allocs[o.Address]; ok {
				blk, cur = b, a
			}
		}
		if cur != nil {
			if cur.Handle != o.Handle || cur.Seq != seq {
				continue
			}
			delete(blk.allocs, o.Address)
			touched[blk] = true // one block write per call, whatever the number of addresses
		}
		released = append(released, rec)
		out = append(out, o)
	}
	for b := range touched {
		b.seqno++
	}
	d.emit("release_ips", map[string]any{"opts": recOpts, "tc": tc, "fail": fail, "released": released})
	if fail {
		return nil, nil, errVerifInjected
	}
	return nil, out, nil
}

func (f *verifIPAMClient) ReleaseBlockAffinity(ctx context.Context, block *model.AllocationBlock, mustBeEmpty bool) error {
	d := f.d
	tc := d.now()
	fail := d.failKind == "block"
	cidr := block.CIDR.String()
	host := ""
	if block.Affinity != nil {
		host = strings.TrimPrefix(*block.Affinity, "host:")
	}
	var err error
	b, ok := d.store[cidr]
	switch {
	case fail:
		err = errVerifInjected
	case !ok:
		err = fmt.Errorf("verif: block %s does not exist", cidr)
	case len(b.allocs) != 0:
		err = fmt.Errorf("verif: block %s is not empty", cidr)
	default:
		delete(d.store, cidr)
	}
	d.emit("release_block", map[string]any{"b": cidr, "host": host, "mbe": mustBeEmpty, "tc": tc, "fail": fail, "err": err != nil})
	return err
}

func (f *verifIPAMClient) ReleaseHostAffinities(ctx context.Context, cfg ipam.AffinityConfig, mustBeEmpty bool) error {
	d := f.d
	tc := d.now()
	fail := d.failKind == "host"
	var err error
	if fail {
		err = errVerifInjected
	} else {
		for cidr, b := range d.store {
			if b.aff == cfg.Host {
				if len(b.allocs) == 0 {
					delete(d.store, cidr)
				} else {
					err = fmt.Errorf("verif: block %s is not empty", cidr)
				}
			}
		}
	}
	d.emit("release_host", map[string]any{"host": cfg.Host, "mbe": mustBeEmpty, "tc": tc, "fail": fail, "err": err != nil})
	return err
}

func (f *verifIPAMClient) GetIPAMConfig(ctx context.Context) (*ipam.IPAMConfig, error) {
	return &ipam.IPAMConfig{}, nil
}

func (f *verifIPAMClient) GarbageCollectColdIPs(ctx context.Context, config *ipam.IPAMConfig, kvp *model.KVPair) error {
	return nil
}

// ---- building API objects from the world (syntax only) -----------------------------------------------------

func (d *verifGC) podObject(name string, p *verifPod) *v1.Pod {
	pod := &v1.Pod{
		ObjectMeta: metav1.ObjectMeta{Name: name, Namespace: verifNS, UID: types.UID("uid-" + name)},
		Spec:       v1.PodSpec{NodeName: p.node},
	}
	if len(p.ips) > 0 {
		pod.Status.PodIP = p.ips[0]
		for _, ip := range p.ips {
			pod.Status.PodIPs = append(pod.Status.PodIPs, v1.PodIP{IP: ip})
		}
	}
	return pod
}

func (d *verifGC) blockKVP(cidr string) model.KVPair {
	_, n, err := cnet.ParseCIDR(cidr)
	if err != nil {
		panic(err)
	}
	key := model.BlockKey{CIDR: model.PrefixFromIPNet(*n)}
	b, ok := d.store[cidr]
	if !ok {
		return model.KVPair{Key: key}
	}
	ones, bits := n.Mask.Size()
	size := 1 << uint(bits-ones)
	ab := &model.AllocationBlock{
		CIDR:                        *n,
		Allocations:                 make([]*int, size),
		Unallocated:                 []int{},
		SequenceNumber:              uint64(b.seqno),
		SequenceNumberForAllocation: map[string]uint64{},
	}
	if b.aff != "" {
		aff := "host:" + b.aff
		ab.Affinity = &aff
	}
	ips := make([]string, 0, len(b.allocs))
	for ip := range b.allocs {
		ips = append(ips, ip)
	}
	sort.Strings(ips)
	base := n.IP.To4()
	for _, ip := range ips {
		a := b.allocs[ip]
		o4 := net.ParseIP(ip).To4()
		ord := int(o4[3]) - int(base[3])
		attrs := map[string]string{}
		if a.Node != "" {
			attrs[ipam.AttributeNode] = a.Node
		}
		switch a.Kind {
		case "pod":
			attrs[ipam.AttributeNamespace] = verifNS
			attrs[ipam.AttributePod] = a.Owner
		case "vm":
			attrs[ipam.AttributeNamespace] = verifNS
			attrs[ipam.AttributePod] = "virt-launcher-" + a.Owner
			attrs[ipam.AttributeVMIName] = a.Owner
		case "tunnel":
			attrs[ipam.AttributeType] = ipam.AttributeTypeVXLAN
		}
		h := a.Handle
		idx := len(ab.Attributes)
		ab.Attributes = append(ab.Attributes, model.AllocationAttribute{HandleID: &h, ActiveOwnerAttrs: attrs})
		ab.Allocations[ord] = &idx
		ab.SequenceNumberForAllocation[strconv.Itoa(ord)] = uint64(a.Seq)
	}
	for i := 0; i < size; i++ {
		if ab.Allocations[i] == nil {
			ab.Unallocated = append(ab.Unallocated, i)
		}
	}
	return model.KVPair{Key: key, Value: ab, Revision: strconv.Itoa(b.seqno)}
}

func (d *verifGC) calicoNode(n string) *internalapi.Node {
	return &internalapi.Node{
		ObjectMeta: metav1.ObjectMeta{Name: n},
		Spec:       internalapi.NodeSpec{OrchRefs: []internalapi.OrchRef{{NodeName: n, Orchestrator: "k8s"}}},
	}
}

// deliverKVP pushes an update through the controller's syncer entry point and processes it.
func (d *verifGC) deliverKVP(kvp model.KVPair) {
	ut := bapi.UpdateTypeKVUpdated
	if kvp.Value == nil {
		ut = bapi.UpdateTypeKVDeleted
	}
	d.c.onUpdate(bapi.Update{KVPair: kvp, UpdateType: ut})
	select {
	case upd := <-d.c.syncerUpdates:
		d.c.handleUpdate(upd)
	default:
		panic("verif: onUpdate did not queue the update")
	}
}

// ---- projection of the controller's maps ---------------------------------------------------------------------

func sortedRows(rows []map[string]any) []any {
	keyed := make([]string, len(rows))
	m := map[string]map[string]any{}
	for i, r := range rows {
		b, _ := json.Marshal(r)
		keyed[i] = string(b)
		m[keyed[i]] = r
	}
	sort.Strings(keyed)
	out := []any{}
	for _, k := range keyed {
		out = append(out, m[k])
	}
	return out
}

func (d *verifGC) state() {
	if d.nostate {
		return
	}
	c := d.c
	blocks := []string{}
	for b := range c.allBlocks {
		blocks = append(blocks, b)
	}
	sort.Strings(blocks)
	bl := []any{}
	for _, b := range blocks {
		bl = append(bl, b)
	}
	var allocs, nbb, bbn, empty, byNode, byHandle, confirmed []map[string]any
	for b, as := range c.allocationsByBlock {
		for id, a := range as {
			if id != a.id() || a.block != b {
				allocs = append(allocs, map[string]any{"block": b, "ip": "BAD-ID " + id, "handle": a.handle, "seq": int(a.sequenceNumber)})
				continue
			}
			allocs = append(allocs, map[string]any{"block": b, "ip": a.ip, "handle": a.handle, "seq": int(a.sequenceNumber)})
		}
	}
	for b, n := range c.nodesByBlock {
		nbb = append(nbb, map[string]any{"block": b, "node": n})
	}
	for n, bs := range c.blocksByNode {
		for b := range bs {
			bbn = append(bbn, map[string]any{"block": b, "node": n})
		}
	}
	for b, n := range c.emptyBlocks {
		empty = append(empty, map[string]any{"block": b, "node": n})
	}
	for n, as := range c.allocationState.allocationsByNode {
		for _, a := range as {
			byNode = append(byNode, map[string]any{"node": n, "ip": a.ip, "handle": a.handle})
		}
	}
	for h, as := range c.handleTracker.allocationsByHandle {
		for _, a := range as {
			byHandle = append(byHandle, map[string]any{"handle": h, "ip": a.ip})
		}
	}
	for _, a := range c.confirmedLeaks {
		confirmed = append(confirmed, map[string]any{"handle": a.handle, "ip": a.ip})
	}
	d.emit("state", map[string]any{
		"blocks": bl, "allocs": sortedRows(allocs), "nodesByBlock": sortedRows(nbb), "blocksByNode": sortedRows(bbn),
		"empty": sortedRows(empty), "byNode": sortedRows(byNode), "byHandle": sortedRows(byHandle),
		"confirmed": sortedRows(confirmed),
	})
}

// ---- one trace ---------------------------------------------------------------------------------------------------

var verifPodGR = schema.GroupResource{Resource: "pods"}

func (d *verifGC) start(t int) {
	d.t = t
	d.base = time.Now()
	d.knodes = map[string]bool{}
	d.pods = map[string]*verifPod{}
	d.vms = map[string]bool{}
	d.store = map[string]*verifBlock{}
	d.failKind = ""
	d.incs = 0
	d.delivered = map[string]int{}

	cs := k8sfake.NewSimpleClientset()
	cs.PrependReactor("get", "pods", func(action k8stesting.Action) (bool, runtime.Object, error) {
		name := action.(k8stesting.GetAction).GetName()
		p, ok := d.pods[name]
		if !ok || action.GetNamespace() != verifNS {
			return true, nil, apierrors.NewNotFound(verifPodGR, name)
		}
		return true, d.podObject(name, p), nil
	})
	d.podIx = cache.NewIndexer(cache.MetaNamespaceKeyFunc, cache.Indexers{cache.NamespaceIndex: cache.MetaNamespaceIndexFunc})
	d.nodeIx = cache.NewIndexer(cache.MetaNamespaceKeyFunc, cache.Indexers{})
	d.vmIx = cache.NewIndexer(cache.MetaNamespaceKeyFunc, cache.Indexers{})
	vmiIx := cache.NewIndexer(cache.MetaNamespaceKeyFunc, cache.Indexers{})
	d.nodes = &fakeNodeClient{nodes: map[string]*internalapi.Node{}}
	cli := &FakeCalicoClient{nodeClient: d.nodes, ipamClient: &verifIPAMClient{d: d}}
	cfg := config.NodeControllerConfig{LeakGracePeriod: &metav1.Duration{Duration: verifG}}
	d.c = NewIPAMController(cfg, cli, cs, d.podIx, d.nodeIx, kubevirt.NewDeferredInformersWithIndexers(d.vmIx, vmiIx))
	d.c.vmRecreationGracePeriod = verifGV
	d.c.handleUpdate(bapi.InSync)
	d.emit("reset", map[string]any{"G": int(verifG / time.Microsecond), "GV": int(verifGV / time.Microsecond)})
}

func strs(v any) []string {
	out := []string{}
	if a, ok := v.([]any); ok {
		for _, x := range a {
			out = append(out, x.(string))
		}
	}
	sort.Strings(out)
	return out
}

func str(v any) string {
	s, _ := v.(string)
	return s
}

func boolean(v any) bool {
	b, _ := v.(bool)
	return b
}

func (d *verifGC) cachePod(name string) {
	key := verifNS + "/" + name
	if p, ok := d.pods[name]; ok {
		if err := d.podIx.Update(d.podObject(name, p)); err != nil {
			panic(err)
		}
		return
	}
	obj, exists, _ := d.podIx.GetByKey(key)
	if exists {
		_ = d.podIx.Delete(obj)
		// the informer's delete handler: OnKubernetesPodDeleted -> podDeletionChan -> markDirtyPodDeleted
		d.c.allocationState.markDirtyPodDeleted(obj.(*v1.Pod))
	}
}

// deliverBlock delivers the current state of block b.  With watch semantics (default) the deletion of a
// previous incarnation of the block is delivered first; with coalesce (re-list semantics) it is not.
func (d *verifGC) deliverBlock(b string) {
	if blk, ok := d.store[b]; ok {
		if _, seen := d.c.allBlocks[b]; seen && d.delivered[b] != blk.inc && !d.coalesce {
			_, n, _ := cnet.ParseCIDR(b)
			d.deliverKVP(model.KVPair{Key: model.BlockKey{CIDR: model.PrefixFromIPNet(*n)}})
			d.emit("deliver_gone", map[string]any{"b": b})
		}
		d.delivered[b] = blk.inc
	} else {
		delete(d.delivered, b)
	}
	d.deliverKVP(d.blockKVP(b))
	d.emit("deliver", map[string]any{"b": b})
}

func (d *verifGC) deliverAll() {
	seen := map[string]bool{}
	for b := range d.store {
		seen[b] = true
	}
	for b := range d.c.allBlocks {
		seen[b] = true
	}
	bs := []string{}
	for b := range seen {
		bs = append(bs, b)
	}
	sort.Strings(bs)
	for _, b := range bs {
		d.deliverBlock(b)
	}
	d.state()
}

func (d *verifGC) sync(full bool, fail string) {
	if full {
		d.c.fullScanNextSync("verif")
	}
	d.failKind = fail
	d.emit("sync_begin", map[string]any{"tb": d.now(), "full": full, "fail": fail})
	err := d.c.syncIPAM()
	d.failKind = ""
	d.emit("sync_end", map[string]any{"ta": d.now(), "err": err != nil})
	d.state()
}

// step executes one operation of a behaviour; operations that do not apply to the current world are skipped.
func (d *verifGC) step(op map[string]any) {
	n, p, b, ip := str(op["n"]), str(op["p"]), str(op["b"]), str(op["ip"])
	switch str(op["op"]) {
	case "node_add":
		if d.knodes[n] {
			return
		}
		d.knodes[n] = true
		_ = d.nodeIx.Add(&v1.Node{ObjectMeta: metav1.ObjectMeta{Name: n}})
		d.nodes.nodes[n] = d.calicoNode(n)
		d.deliverKVP(model.KVPair{Key: model.ResourceKey{Kind: internalapi.KindNode, Name: n}, Value: d.calicoNode(n)})
		d.emit("node_add", map[string]any{"n": n})
	case "node_del":
		if !d.knodes[n] {
			return
		}
		// assumption E2: the pod cache has caught up on this node's pods before the node goes away
		pn := []string{}
		for name, pod := range d.pods {
			if pod.node == n {
				pn = append(pn, name)
			}
		}
		sort.Strings(pn)
		for _, name := range pn {
			d.cachePod(name)
			d.emit("pod_cache_sync", map[string]any{"p": name})
		}
		delete(d.knodes, n)
		_ = d.nodeIx.Delete(&v1.Node{ObjectMeta: metav1.ObjectMeta{Name: n}})
		delete(d.nodes.nodes, n)
		if boolean(op["deliver"]) {
			d.deliverKVP(model.KVPair{Key: model.ResourceKey{Kind: internalapi.KindNode, Name: n}})
		}
		d.emit("node_del", map[string]any{"n": n, "deliver": boolean(op["deliver"])})
	case "pod_set":
		cached := boolean(op["cached"])
		node := str(op["node"])
		if !d.knodes[node] && !cached {
			cached = true
		}
		d.pods[p] = &verifPod{node: node, ips: strs(op["ips"])}
		if cached {
			d.cachePod(p)
		}
		d.emit("pod_set", map[string]any{"p": p, "node": node, "ips": strs(op["ips"]), "cached": cached})
	case "pod_del":
		if _, ok := d.pods[p]; !ok {
			return
		}
		cached := boolean(op["cached"])
		delete(d.pods, p)
		if cached {
			d.cachePod(p)
		}
		d.emit("pod_del", map[string]any{"p": p, "cached": cached})
	case "pod_cache_sync":
		d.cachePod(p)
		d.emit("pod_cache_sync", map[string]any{"p": p})
	case "vm_set":
		v := str(op["v"])
		ex := boolean(op["exists"])
		obj := &kubevirtv1.VirtualMachine{ObjectMeta: metav1.ObjectMeta{Name: v, Namespace: verifNS}}
		if ex {
			d.vms[v] = true
			_ = d.vmIx.Update(obj)
		} else {
			delete(d.vms, v)
			_ = d.vmIx.Delete(obj)
		}
		d.emit("vm_set", map[string]any{"v": v, "exists": ex})
	case "block_create":
		if _, ok := d.store[b]; ok {
			return
		}
		d.incs++
		d.store[b] = &verifBlock{aff: str(op["aff"]), allocs: map[string]*verifAlloc{}, inc: d.incs}
		d.emit("block_create", map[string]any{"b": b, "aff": str(op["aff"])})
	case "block_delete":
		blk, ok := d.store[b]
		if !ok || len(blk.allocs) != 0 {
			return
		}
		delete(d.store, b)
		d.emit("block_delete", map[string]any{"b": b})
	case "assign":
		blk, ok := d.store[b]
		if !ok {
			return
		}
		for _, ob := range d.store {
			if _, used := ob.allocs[ip]; used {
				return
			}
		}
		blk.seqno++
		a := &verifAlloc{IP: ip, Handle: str(op["handle"]), Seq: blk.seqno, Kind: str(op["kind"]), Owner: str(op["owner"]), Node: str(op["node"])}
		blk.allocs[ip] = a
		d.emit("assign", map[string]any{"b": b, "ip": ip, "handle": a.Handle, "seq": a.Seq, "kind": a.Kind, "owner": a.Owner, "node": a.Node})
	case "free":
		blk, ok := d.store[b]
		if !ok {
			return
		}
		if _, used := blk.allocs[ip]; !used {
			return
		}
		delete(blk.allocs, ip)
		blk.seqno++
		d.emit("free", map[string]any{"b": b, "ip": ip})
	case "deliver":
		_, inStore := d.store[b]
		_, seen := d.c.allBlocks[b]
		if !inStore && !seen {
			return
		}
		d.deliverBlock(b)
		d.state()
	case "sleep":
		if str(op["d"]) == "l" {
			time.Sleep(verifL)
		} else {
			time.Sleep(verifS)
		}
	case "sync":
		d.sync(boolean(op["full"]), str(op["fail"]))
	case "options":
		// witness behaviours only: re-list delivery semantics / no projection of the controller's maps
		d.coalesce = boolean(op["coalesce"])
		d.nostate = boolean(op["nostate"])
		d.emit("options", map[string]any{"coalesce": d.coalesce, "nostate": d.nostate})
	case "end":
	default:
		panic("unknown op " + fmt.Sprint(op["op"]))
	}
}

// finish freezes the world and runs three clean full syncs separated by more than the applicable grace period.
func (d *verifGC) finish() {
	names := map[string]bool{}
	for p := range d.pods {
		names[p] = true
	}
	for _, k := range d.podIx.ListKeys() {
		names[strings.TrimPrefix(k, verifNS+"/")] = true
	}
	ps := []string{}
	for p := range names {
		ps = append(ps, p)
	}
	sort.Strings(ps)
	for _, p := range ps {
		d.cachePod(p)
		d.emit("pod_cache_sync", map[string]any{"p": p})
	}
	// the syncer catches up on Calico node resources as well (not part of the judged state)
	ns := []string{}
	for n := range d.c.kubernetesNodesByCalicoName {
		ns = append(ns, n)
	}
	sort.Strings(ns)
	for _, n := range ns {
		if !d.knodes[n] {
			d.deliverKVP(model.KVPair{Key: model.ResourceKey{Kind: internalapi.KindNode, Name: n}})
		}
	}
	d.deliverAll()
	d.emit("freeze", nil)
	gap := verifS
	for _, b := range d.store {
		for _, a := range b.allocs {
			if a.Kind == "vm" {
				gap = verifL
			}
		}
	}
	for i := 0; i < 3; i++ {
		time.Sleep(gap)
		d.sync(true, "")
		d.deliverAll()
	}
	d.emit("final", nil)
}

func (d *verifGC) runTrace(t int, ops []map[string]any, rnd *rand.Rand) (out []byte) {
	defer func() {
		if r := recover(); r != nil {
			d.emit("fatal", map[string]any{"what": fmt.Sprint(r)})
			out = append([]byte(nil), d.buf.Bytes()...)
		}
	}()
	d.buf.Reset()
	d.coalesce, d.nostate = false, false
	d.start(t)
	if rnd != nil {
		d.random(rnd)
	} else {
		for _, op := range ops {
			d.step(op)
		}
	}
	d.finish()
	return append([]byte(nil), d.buf.Bytes()...)
}

func (d *verifGC) sortedAllocs() []*verifAlloc {
	var out []*verifAlloc
	for _, b := range d.store {
		for _, a := range b.allocs {
			out = append(out, a)
		}
	}
	sort.Slice(out, func(i, j int) bool { return out[i].IP < out[j].IP })
	return out
}

// ---- seeded random histories over a larger universe ----------------------------------------------------------------

func (d *verifGC) random(rnd *rand.Rand) {
	nodes := []string{"n1", "n2", "n3"}[:2+rnd.Intn(2)]
	pods := []string{"p1", "p2", "p3", "p4"}[:2+rnd.Intn(3)]
	vmsU := []string{"v1", "v2"}
	blocks := []string{"10.0.1.0/30", "10.0.2.0/30", "10.0.3.0/30", "10.0.4.0/30"}[:2+rnd.Intn(3)]
	ipOf := func(b string, i int) string { return strings.TrimSuffix(b, "0/30") + strconv.Itoa(i) }
	pick := func(s []string) string { return s[rnd.Intn(len(s))] }
	useVM := rnd.Intn(3) == 0
	// regression territory of the two onBlockUpdated fixes: re-list delivery (a re-created block arrives as a
	// plain update) and handles that are reused on another node
	wildHandles := false
	switch rnd.Intn(6) {
	case 0:
		d.step(map[string]any{"op": "options", "coalesce": true, "nostate": false})
	case 1:
		wildHandles = true
	}
	for _, n := range nodes {
		if rnd.Intn(5) > 0 {
			d.step(map[string]any{"op": "node_add", "n": n})
		}
	}
	for _, b := range blocks {
		if rnd.Intn(6) > 0 {
			aff := pick(nodes)
			if rnd.Intn(10) == 0 {
				aff = ""
			}
			d.step(map[string]any{"op": "block_create", "b": b, "aff": aff})
		}
	}
	if rnd.Intn(8) == 0 {
		// prelude: a node with a tunnel address (and sometimes a leaked pod address) is deleted, the release of
		// its addresses fails so that they stay queued, and the node re-registers under the same name
		n, b := nodes[0], blocks[0]
		d.step(map[string]any{"op": "node_add", "n": n})
		d.step(map[string]any{"op": "block_create", "b": b, "aff": n})
		d.step(map[string]any{"op": "assign", "b": b, "ip": ipOf(b, 0), "handle": "vxlan-tunnel-addr@" + n, "kind": "tunnel", "owner": "", "node": n})
		if rnd.Intn(2) == 0 {
			d.step(map[string]any{"op": "assign", "b": b, "ip": ipOf(b, 1), "handle": "k8s-pod-network.gone@" + n, "kind": "pod", "owner": "gone", "node": n})
		}
		d.step(map[string]any{"op": "deliver", "b": b})
		d.step(map[string]any{"op": "node_del", "n": n, "deliver": rnd.Intn(2) == 0})
		d.step(map[string]any{"op": "sync", "full": rnd.Intn(2) == 0, "fail": "ips"})
		d.step(map[string]any{"op": "node_add", "n": n})
	}
	steps := 15 + rnd.Intn(30)
	longs := 0
	for i := 0; i < steps; i++ {
		switch c := rnd.Intn(100); {
		case c < 4:
			d.step(map[string]any{"op": "node_add", "n": pick(nodes)})
		case c < 8:
			d.step(map[string]any{"op": "node_del", "n": pick(nodes), "deliver": rnd.Intn(2) == 0})
		case c < 20:
			p := pick(pods)
			ips := []any{}
			// a pod usually reports the addresses assigned to it
			for _, a := range d.sortedAllocs() {
				if a.Kind == "pod" && a.Owner == p && rnd.Intn(5) > 0 {
					ips = append(ips, a.IP)
				}
			}
			if rnd.Intn(8) == 0 {
				ips = append(ips, ipOf(pick(blocks), rnd.Intn(4)))
			}
			d.step(map[string]any{"op": "pod_set", "p": p, "node": pick(nodes), "ips": ips, "cached": rnd.Intn(4) > 0})
		case c < 30:
			d.step(map[string]any{"op": "pod_del", "p": pick(pods), "cached": rnd.Intn(4) > 0})
		case c < 34:
			d.step(map[string]any{"op": "pod_cache_sync", "p": pick(pods)})
		case c < 37:
			if useVM {
				d.step(map[string]any{"op": "vm_set", "v": pick(vmsU), "exists": rnd.Intn(2) == 0})
			}
		case c < 39:
			d.step(map[string]any{"op": "block_create", "b": pick(blocks), "aff": pick(nodes)})
		case c < 41:
			d.step(map[string]any{"op": "block_delete", "b": pick(blocks)})
		case c < 56:
			b := pick(blocks)
			n := pick(nodes)
			kind, owner, handle := "pod", pick(pods), ""
			switch k := rnd.Intn(20); {
			case k == 0:
				kind, owner, handle = "tunnel", "", "vxlan-tunnel-addr"
			case k == 1:
				kind, owner, handle = "other", "", "misc"
			case k < 11 && useVM:
				kind, owner = "vm", pick(vmsU)
				handle = "k8s-pod-network.vm-" + owner
			default:
				handle = "k8s-pod-network." + owner
				if rnd.Intn(6) == 0 {
					handle += "-" + strconv.Itoa(rnd.Intn(2))
				}
			}
			if !wildHandles {
				handle += "@" + n // a handle normally belongs to one node
			}
			d.step(map[string]any{"op": "assign", "b": b, "ip": ipOf(b, rnd.Intn(4)), "handle": handle, "kind": kind, "owner": owner, "node": n})
		case c < 61:
			b := pick(blocks)
			d.step(map[string]any{"op": "free", "b": b, "ip": ipOf(b, rnd.Intn(4))})
		case c < 76:
			d.step(map[string]any{"op": "deliver", "b": pick(blocks)})
		case c < 84:
			if useVM && longs < 2 && rnd.Intn(4) == 0 {
				longs++
				d.step(map[string]any{"op": "sleep", "d": "l"})
			} else {
				d.step(map[string]any{"op": "sleep", "d": "s"})
			}
		default:
			fail := ""
			if rnd.Intn(8) == 0 {
				fail = []string{"ips", "block", "host"}[rnd.Intn(3)]
			}
			d.step(map[string]any{"op": "sync", "full": rnd.Intn(3) > 0, "fail": fail})
		}
	}
}

func TestVerifGC(t *testing.T) {
	out := os.Getenv("VERIF_OUT")
	if out == "" {
		t.Skip("VERIF_OUT not set")
	}
	log.SetLevel(log.PanicLevel)
	log.StandardLogger().ExitFunc = func(int) { panic("logrus Fatal") }
	seed, _ := strconv.ParseInt(os.Getenv("VERIF_SEED"), 10, 64)
	if seed == 0 {
		seed = 1
	}
	nrand, _ := strconv.Atoi(os.Getenv("VERIF_N"))
	var behs [][]map[string]any
	if bp := os.Getenv("VERIF_BEH"); bp != "" {
		b, err := os.ReadFile(bp)
		if err != nil {
			t.Fatal(err)
		}
		if err := json.Unmarshal(b, &behs); err != nil {
			t.Fatal(err)
		}
	}
	total := len(behs) + nrand
	results := make([][]byte, total)
	workers := 24
	if w, _ := strconv.Atoi(os.Getenv("VERIF_WORKERS")); w > 0 {
		workers = w
	}
	jobs := make(chan int)
	var wg sync.WaitGroup
	for w := 0; w < workers; w++ {
		wg.Add(1)
		go func() {
			defer wg.Done()
			d := &verifGC{}
			for i := range jobs {
				if i < len(behs) {
					results[i] = d.runTrace(i+1, behs[i], nil)
				} else {
					results[i] = d.runTrace(i+1, nil, rand.New(rand.NewSource(seed*1000003+int64(i-len(behs)))))
				}
			}
		}()
	}
	for i := 0; i < total; i++ {
		jobs <- i
	}
	close(jobs)
	wg.Wait()
	f, err := os.Create(out)
	if err != nil {
		t.Fatal(err)
	}
	for _, r := range results {
		if _, err := f.Write(r); err != nil {
			t.Fatal(err)
		}
	}
	if err := f.Close(); err != nil {
		t.Fatal(err)
	}
}
