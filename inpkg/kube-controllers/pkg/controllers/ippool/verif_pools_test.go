// In-package driver for C39 (injected with `go test -overlay`; /repo is not modified).
//
// It executes the REAL IPPoolController.reconcile() against
//   - a miniature API server for IPPools (reactor on the generated fake clientset) with the semantics the
//     property depends on: optimistic concurrency on resourceVersion, status sub-resource separation,
//     delete = mark while finalizers exist / remove otherwise, removal when the last finalizer of a
//     deleting object goes away;
//   - hand-filled informer indexers that are refreshed from the API server before every reconcile
//     (Reconcile is atomic on the informer snapshot);
// and records, after every step, the pool objects as the API server holds them.  It does not judge
// anything: specs/pools/T_Pools.tla does.
package ippool

import (
	"bufio"
	"context"
	"encoding/json"
	"fmt"
	"math/rand"
	"net"
	"os"
	"sort"
	"strconv"
	"testing"
	"time"

	v3 "github.com/projectcalico/api/pkg/apis/projectcalico/v3"
	"github.com/projectcalico/api/pkg/client/clientset_generated/clientset/fake"
	"github.com/sirupsen/logrus"
	apierrors "k8s.io/apimachinery/pkg/api/errors"
	metav1 "k8s.io/apimachinery/pkg/apis/meta/v1"
	"k8s.io/apimachinery/pkg/runtime"
	"k8s.io/apimachinery/pkg/runtime/schema"
	"k8s.io/apimachinery/pkg/types"
	k8stesting "k8s.io/client-go/testing"
	"k8s.io/client-go/tools/cache"
	"k8s.io/client-go/util/workqueue"

	"github.com/projectcalico/calico/libcalico-go/lib/ipam"
	cnet "github.com/projectcalico/calico/libcalico-go/lib/net"
)

// ---- ndjson trace log ----------------------------------------------------------------------------------

type verifLog struct {
	f *os.File
	w *bufio.Writer
	t int
}

func verifOpenLog(path string) *verifLog {
	f, err := os.Create(path)
	if err != nil {
		panic(err)
	}
	return &verifLog{f: f, w: bufio.NewWriterSize(f, 1<<20)}
}

func (l *verifLog) emit(ev string, fields map[string]any) {
	m := map[string]any{"ev": ev, "t": l.t}
	for k, v := range fields {
		m[k] = v
	}
	b, err := json.Marshal(m)
	if err != nil {
		panic(err)
	}
	l.w.Write(b)
	l.w.WriteByte('\n')
}

func (l *verifLog) close() {
	if err := l.w.Flush(); err != nil {
		panic(err)
	}
	if err := l.f.Close(); err != nil {
		panic(err)
	}
}

// ---- miniature API server ------------------------------------------------------------------------------

var verifGR = schema.GroupResource{Group: "projectcalico.org", Resource: "ippools"}

var verifEpoch = time.Unix(1700000000, 0)

type verifAPI struct {
	pools map[string]*v3.IPPool
	// failStatus: pools whose next status writes are rejected with a conflict (fault injection chosen by the
	// behaviour); failed records the ones that were actually hit
	failStatus map[string]bool
	failed     map[string]bool
	rv         int
	clock int // seconds after the epoch of the most recent creation
}

func (a *verifAPI) nextRV() string {
	a.rv++
	return strconv.Itoa(a.rv)
}

func (a *verifAPI) create(name, cidr string, disabled bool, stamp int) {
	p := &v3.IPPool{
		ObjectMeta: metav1.ObjectMeta{
			Name:              name,
			UID:               types.UID("uid-" + name + "-" + strconv.Itoa(a.rv)),
			CreationTimestamp: metav1.NewTime(verifEpoch.Add(time.Duration(stamp) * time.Second)),
			ResourceVersion:   a.nextRV(),
		},
		Spec: v3.IPPoolSpec{CIDR: cidr, Disabled: disabled},
	}
	a.pools[name] = p
}

func (a *verifAPI) setDisabled(name string, v bool) {
	p := a.pools[name].DeepCopy()
	p.Spec.Disabled = v
	p.ResourceVersion = a.nextRV()
	a.pools[name] = p
}

func (a *verifAPI) delete(name string) {
	p := a.pools[name]
	if len(p.Finalizers) == 0 {
		delete(a.pools, name)
		return
	}
	if p.DeletionTimestamp != nil {
		return
	}
	p = p.DeepCopy()
	ts := metav1.NewTime(verifEpoch.Add(24 * time.Hour))
	p.DeletionTimestamp = &ts
	p.ResourceVersion = a.nextRV()
	a.pools[name] = p
}

// update implements PUT on the main resource (status ignored) or on /status (only status taken).
func (a *verifAPI) update(obj *v3.IPPool, status bool) (*v3.IPPool, error) {
	cur, ok := a.pools[obj.Name]
	if !ok {
		return nil, apierrors.NewNotFound(verifGR, obj.Name)
	}
	if obj.ResourceVersion != cur.ResourceVersion {
		return nil, apierrors.NewConflict(verifGR, obj.Name, fmt.Errorf("resourceVersion %q is stale (have %q)", obj.ResourceVersion, cur.ResourceVersion))
	}
	var upd *v3.IPPool
	if status {
		upd = cur.DeepCopy()
		if obj.Status != nil {
			upd.Status = obj.Status.DeepCopy()
		} else {
			upd.Status = nil
		}
	} else {
		upd = obj.DeepCopy()
		upd.Status = nil
		if cur.Status != nil {
			upd.Status = cur.Status.DeepCopy()
		}
		// fields a client cannot change
		upd.UID = cur.UID
		upd.CreationTimestamp = cur.CreationTimestamp
		upd.DeletionTimestamp = cur.DeletionTimestamp
	}
	upd.ResourceVersion = a.nextRV()
	if upd.DeletionTimestamp != nil && len(upd.Finalizers) == 0 {
		delete(a.pools, obj.Name)
	} else {
		a.pools[obj.Name] = upd
	}
	return upd.DeepCopy(), nil
}

func (a *verifAPI) react(action k8stesting.Action) (bool, runtime.Object, error) {
	switch act := action.(type) {
	case k8stesting.UpdateAction:
		obj, ok := act.GetObject().(*v3.IPPool)
		if !ok {
			return true, nil, fmt.Errorf("verif: unexpected object %T", act.GetObject())
		}
		sub := action.GetSubresource()
		if sub != "" && sub != "status" {
			return true, nil, fmt.Errorf("verif: unexpected subresource %q", sub)
		}
		if sub == "status" && a.failStatus[obj.Name] {
			a.failed[obj.Name] = true
			return true, nil, apierrors.NewConflict(verifGR, obj.Name, fmt.Errorf("verif: injected status write failure"))
		}
		out, err := a.update(obj, sub == "status")
		if err != nil {
			return true, nil, err
		}
		return true, out, nil
	case k8stesting.GetAction:
		p, ok := a.pools[act.GetName()]
		if !ok {
			return true, nil, apierrors.NewNotFound(verifGR, act.GetName())
		}
		return true, p.DeepCopy(), nil
	case k8stesting.DeleteAction:
		if _, ok := a.pools[act.GetName()]; !ok {
			return true, nil, apierrors.NewNotFound(verifGR, act.GetName())
		}
		a.delete(act.GetName())
		return true, nil, nil
	case k8stesting.ListAction:
		l := &v3.IPPoolList{}
		for _, n := range a.names() {
			l.Items = append(l.Items, *a.pools[n].DeepCopy())
		}
		return true, l, nil
	}
	return true, nil, fmt.Errorf("verif: unsupported verb %q on ippools", action.GetVerb())
}

func (a *verifAPI) names() []string {
	ns := make([]string, 0, len(a.pools))
	for n := range a.pools {
		ns = append(ns, n)
	}
	sort.Strings(ns)
	return ns
}

// ---- fakes the controller is wired to --------------------------------------------------------------------

type verifInformer struct {
	cache.SharedIndexInformer
	indexer cache.Indexer
}

func (f *verifInformer) GetIndexer() cache.Indexer { return f.indexer }
func (f *verifInformer) GetStore() cache.Store     { return f.indexer }

type verifIPAM struct {
	ipam.Interface
	released []string
}

func (f *verifIPAM) ReleasePoolAffinities(ctx context.Context, pool cnet.IPNet) error {
	f.released = append(f.released, pool.String())
	return nil
}

type verifQueue struct {
	workqueue.TypedRateLimitingInterface[string]
}

func (verifQueue) Add(string)             {}
func (verifQueue) AddRateLimited(string)  {}
func (verifQueue) Forget(string)          {}
func (verifQueue) NumRequeues(string) int { return 0 }

// ---- syntax conversion -------------------------------------------------------------------------------------

// cidrJSON renders "10.0.0.0/16" as {"a":[10,0,0,0],"n":16} (module Nets' CIDR record).
func cidrJSON(s string) map[string]any {
	_, n, err := net.ParseCIDR(s)
	if err != nil {
		panic(err)
	}
	ipb := n.IP.To4()
	if ipb == nil {
		ipb = n.IP.To16()
	}
	a := make([]int, len(ipb))
	for i, b := range ipb {
		a[i] = int(b)
	}
	ones, _ := n.Mask.Size()
	return map[string]any{"a": a, "n": ones}
}

func cidrString(v any) string {
	m := v.(map[string]any)
	oct := m["a"].([]any)
	b := make(net.IP, len(oct))
	for i, o := range oct {
		b[i] = byte(int(o.(float64)))
	}
	return fmt.Sprintf("%s/%d", b.String(), int(m["n"].(float64)))
}

type verifDrv struct {
	log    *verifLog
	api    *verifAPI
	blocks map[string]bool
	ctrl   *IPPoolController
	ipam   *verifIPAM
	poolIx cache.Indexer
	blkIx  cache.Indexer
}

func (d *verifDrv) poolsJSON() []any {
	out := []any{}
	for _, n := range d.api.names() {
		p := d.api.pools[n]
		cond := "none"
		if p.Status != nil {
			for _, c := range p.Status.Conditions {
				if c.Type == v3.IPPoolConditionAllocatable {
					switch c.Status {
					case metav1.ConditionTrue:
						cond = "T"
					case metav1.ConditionFalse:
						cond = "F"
					default:
						cond = string(c.Status)
					}
				}
			}
		}
		fin := false
		for _, f := range p.Finalizers {
			if f == IPPoolFinalizer {
				fin = true
			}
		}
		out = append(out, map[string]any{
			"name":     n,
			"cidr":     cidrJSON(p.Spec.CIDR),
			"disabled": p.Spec.Disabled,
			"deleting": p.DeletionTimestamp != nil,
			"created":  int(p.CreationTimestamp.Time.Sub(verifEpoch) / time.Second),
			"cond":     cond,
			"fin":      fin,
		})
	}
	return out
}

func (d *verifDrv) blocksJSON() []any {
	out := []any{}
	ks := make([]string, 0, len(d.blocks))
	for k := range d.blocks {
		ks = append(ks, k)
	}
	sort.Strings(ks)
	for _, k := range ks {
		out = append(out, cidrJSON(k))
	}
	return out
}

func (d *verifDrv) emit(ev string, f map[string]any) {
	if f == nil {
		f = map[string]any{}
	}
	f["pools"] = d.poolsJSON()
	f["blocks"] = d.blocksJSON()
	d.log.emit(ev, f)
}

func (d *verifDrv) start(t int) {
	d.log.t = t
	d.api = &verifAPI{pools: map[string]*v3.IPPool{}}
	d.blocks = map[string]bool{}
	cli := fake.NewSimpleClientset()
	cli.PrependReactor("*", "ippools", d.api.react)
	d.poolIx = cache.NewIndexer(cache.MetaNamespaceKeyFunc, cache.Indexers{})
	d.blkIx = cache.NewIndexer(cache.MetaNamespaceKeyFunc, cache.Indexers{})
	d.ipam = &verifIPAM{}
	d.ctrl = &IPPoolController{
		ctx:           context.Background(),
		cli:           cli,
		poolInformer:  &verifInformer{indexer: d.poolIx},
		blockInformer: &verifInformer{indexer: d.blkIx},
		ipam:          d.ipam,
		queue:         verifQueue{},
	}
	d.emit("reset", nil)
}

// syncInformers makes both informer caches equal to the API server's state.
func (d *verifDrv) syncInformers() {
	objs := []any{}
	for _, n := range d.api.names() {
		objs = append(objs, d.api.pools[n].DeepCopy())
	}
	if err := d.poolIx.Replace(objs, ""); err != nil {
		panic(err)
	}
	bl := []any{}
	for c := range d.blocks {
		bl = append(bl, &v3.IPAMBlock{
			ObjectMeta: metav1.ObjectMeta{Name: "blk-" + c},
			Spec:       v3.IPAMBlockSpec{CIDR: c},
		})
	}
	if err := d.blkIx.Replace(bl, ""); err != nil {
		panic(err)
	}
}

func (d *verifDrv) maxStamp() int {
	m := 0
	for _, p := range d.api.pools {
		if s := int(p.CreationTimestamp.Time.Sub(verifEpoch) / time.Second); s > m {
			m = s
		}
	}
	return m
}

// step executes one operation; operations that do not apply to the current API state are skipped.
func (d *verifDrv) step(op map[string]any) {
	name, _ := op["n"].(string)
	switch op["op"].(string) {
	case "create":
		if _, ok := d.api.pools[name]; ok {
			return
		}
		stamp := d.maxStamp()
		tie, _ := op["tie"].(bool)
		if !tie || stamp == 0 {
			stamp++
		}
		cidr := cidrString(op["cidr"])
		dis, _ := op["dis"].(bool)
		d.api.create(name, cidr, dis, stamp)
		d.emit("create", map[string]any{"name": name, "cidr": cidrJSON(cidr), "disabled": dis, "created": stamp})
	case "set_disabled":
		p, ok := d.api.pools[name]
		v, _ := op["v"].(bool)
		if !ok || p.Spec.Disabled == v {
			return
		}
		d.api.setDisabled(name, v)
		d.emit("set_disabled", map[string]any{"name": name, "v": v})
	case "delete":
		p, ok := d.api.pools[name]
		if !ok || p.DeletionTimestamp != nil {
			return
		}
		d.api.delete(name)
		d.emit("delete", map[string]any{"name": name})
	case "block_add":
		c := cidrString(op["cidr"])
		if d.blocks[c] {
			return
		}
		d.blocks[c] = true
		d.emit("block_add", map[string]any{"cidr": cidrJSON(c)})
	case "block_del":
		c := cidrString(op["cidr"])
		if !d.blocks[c] {
			return
		}
		delete(d.blocks, c)
		d.emit("block_del", map[string]any{"cidr": cidrJSON(c)})
	case "reconcile":
		d.syncInformers()
		d.ipam.released = nil
		d.api.failStatus, d.api.failed = map[string]bool{}, map[string]bool{}
		if fl, ok := op["fail"].([]any); ok {
			for _, f := range fl {
				d.api.failStatus[f.(string)] = true
			}
		}
		err := d.ctrl.reconcile()
		d.api.failStatus = map[string]bool{}
		failed := []any{}
		for _, n := range sortedKeys(d.api.failed) {
			failed = append(failed, n)
		}
		es := ""
		if err != nil {
			es = err.Error()
		}
		rel := []any{}
		for _, r := range d.ipam.released {
			rel = append(rel, cidrJSON(r))
		}
		d.emit("reconcile", map[string]any{"err": es, "released": rel, "failed": failed})
	case "end":
	default:
		panic("unknown op " + fmt.Sprint(op["op"]))
	}
}

var verifPoolCIDRs = []string{
	"10.0.0.0/16", "10.0.0.0/24", "10.0.1.0/24", "10.0.0.0/25", "10.0.0.128/25", "10.1.0.0/16", "10.0.0.0/8",
	"192.168.0.0/20", "192.168.8.0/22", "fd00::/48", "fd00::/64", "fd00:0:0:1::/64",
}

var verifBlockCIDRs = []string{
	"10.0.0.0/26", "10.0.0.128/26", "10.0.1.64/26", "10.0.200.0/26", "10.1.7.0/26", "10.99.0.0/26",
	"192.168.9.0/26", "192.168.1.0/26", "fd00::/122", "fd00:0:0:1::40/122", "fd00:0:0:5::/122",
}

func (d *verifDrv) random(t int, rnd *rand.Rand) {
	d.start(t)
	nn := 3 + rnd.Intn(4)
	names := make([]any, nn)
	for i := range names {
		names[i] = fmt.Sprintf("p%d", i+1)
	}
	// a trace works inside a random sub-family so that overlaps are frequent
	nc := 3 + rnd.Intn(5)
	cidrs := make([]string, nc)
	for i := range cidrs {
		cidrs[i] = verifPoolCIDRs[rnd.Intn(len(verifPoolCIDRs))]
	}
	steps := 12 + rnd.Intn(28)
	for i := 0; i < steps; i++ {
		n := names[rnd.Intn(nn)]
		switch c := rnd.Intn(20); {
		case c < 5:
			d.step(map[string]any{"op": "create", "n": n, "cidr": jsonRoundTrip(cidrJSON(cidrs[rnd.Intn(nc)])),
				"dis": rnd.Intn(6) == 0, "tie": rnd.Intn(5) == 0})
		case c < 7:
			d.step(map[string]any{"op": "set_disabled", "n": n, "v": rnd.Intn(2) == 0})
		case c < 10:
			d.step(map[string]any{"op": "delete", "n": n})
			if rnd.Intn(3) == 0 {
				// the first pass after the deletion, with the terminating pool's own status write rejected
				d.step(map[string]any{"op": "reconcile", "fail": []any{n}})
			}
		case c < 12:
			d.step(map[string]any{"op": "block_add", "cidr": jsonRoundTrip(cidrJSON(verifBlockCIDRs[rnd.Intn(len(verifBlockCIDRs))]))})
		case c < 14:
			d.step(map[string]any{"op": "block_del", "cidr": jsonRoundTrip(cidrJSON(verifBlockCIDRs[rnd.Intn(len(verifBlockCIDRs))]))})
		case c < 16:
			// a pass in which the status writes of one or two pools are rejected, usually followed by the retry
			fl := []any{names[rnd.Intn(nn)]}
			if rnd.Intn(3) == 0 {
				fl = append(fl, names[rnd.Intn(nn)])
			}
			d.step(map[string]any{"op": "reconcile", "fail": fl})
			if rnd.Intn(4) > 0 {
				d.step(map[string]any{"op": "reconcile"})
			}
		default:
			d.step(map[string]any{"op": "reconcile"})
		}
	}
	d.step(map[string]any{"op": "reconcile"})
}

func sortedKeys(m map[string]bool) []string {
	ks := make([]string, 0, len(m))
	for k := range m {
		ks = append(ks, k)
	}
	sort.Strings(ks)
	return ks
}

func jsonRoundTrip(v any) any {
	b, _ := json.Marshal(v)
	var out any
	_ = json.Unmarshal(b, &out)
	return out
}

func TestVerifPools(t *testing.T) {
	out := os.Getenv("VERIF_OUT")
	if out == "" {
		t.Skip("VERIF_OUT not set")
	}
	logrus.SetLevel(logrus.PanicLevel)
	seed, _ := strconv.ParseInt(os.Getenv("VERIF_SEED"), 10, 64)
	if seed == 0 {
		seed = 1
	}
	nrand, _ := strconv.Atoi(os.Getenv("VERIF_N"))
	var behs [][]map[string]any
	if bp := os.Getenv("VERIF_BEH"); bp != "" {
		b, err := os.ReadFile(bp)
		if err != nil {
			t.Fatal(err)
		}
		if err := json.Unmarshal(b, &behs); err != nil {
			t.Fatal(err)
		}
	}
	d := &verifDrv{log: verifOpenLog(out)}
	tn := 0
	for _, b := range behs {
		tn++
		d.start(tn)
		for _, op := range b {
			d.step(op)
		}
	}
	for i := 0; i < nrand; i++ {
		tn++
		d.random(tn, rand.New(rand.NewSource(seed*1000003+int64(i))))
	}
	d.log.close()
}
