// In-package driver for C16 (injected with `go test -overlay`, package ipsets_test so that the package's
// own mock dataplane from utils_for_test.go is usable).  It replays TLC-generated behaviours and seeded
// random histories on the real ipsets.IPSets over that mock, in the order of int_dataplane.apply()
// (ApplyUpdates, tables, ApplyDeletions), and records every kernel command the mock sees together with
// the whole content of the mock kernel after it.  Nothing is judged here (see specs/reconcile_ipsets).
package ipsets_test

import (
	"bufio"
	"bytes"
	"encoding/json"
	"fmt"
	"io"
	"math/rand"
	"os"
	"sort"
	"strconv"
	"strings"
	"sync"
	"testing"

	"github.com/onsi/gomega"
	log "github.com/sirupsen/logrus"

	. "github.com/projectcalico/calico/felix/ipsets"
	"github.com/projectcalico/calico/felix/rules"
	"github.com/projectcalico/calico/lib/logrusr"
	"github.com/projectcalico/calico/libcalico-go/lib/set"
)

// ---- ndjson log ---------------------------------------------------------------------------------

type vLog struct {
	mu sync.Mutex
	w  *bufio.Writer
	t  int
}

func (l *vLog) emit(ev string, f map[string]any) {
	l.mu.Lock()
	defer l.mu.Unlock()
	m := map[string]any{"ev": ev, "t": l.t}
	for k, v := range f {
		m[k] = v
	}
	b, err := json.Marshal(m)
	if err != nil {
		panic(err)
	}
	l.w.Write(b)
	l.w.WriteByte('\n')
}

type vSet struct {
	Type    string   `json:"type"`
	Max     int      `json:"max"`
	Members []string `json:"members"`
}

type vEdit struct {
	Kind   string
	Set    string
	Member string
	S      vSet
}

// ---- driver -------------------------------------------------------------------------------------

type vDrv struct {
	log *vLog
	dp  *mockDataplane
	s   *IPSets
	cfg *IPVersionConfig

	refs      []string
	nCmd      int
	preAt     int
	pre       func()
	failDestr bool
	asserted  string

	lastUse     any
	lastResched bool
}

func vStr(v any) string { s, _ := v.(string); return s }
func vInt(v any) int {
	switch x := v.(type) {
	case float64:
		return int(x)
	case int:
		return x
	}
	return 0
}
func vStrs(v any) []string {
	out := []string{}
	if a, ok := v.([]any); ok {
		for _, x := range a {
			out = append(out, vStr(x))
		}
	}
	if a, ok := v.([]string); ok {
		out = append(out, a...)
	}
	return out
}
func vToSet(v any) vSet {
	m, _ := v.(map[string]any)
	return vSet{Type: vStr(m["type"]), Max: vInt(m["max"]), Members: vStrs(m["members"])}
}

func (d *vDrv) kernel() map[string]vSet {
	k := map[string]vSet{}
	for name, ms := range d.dp.IPSetMembers {
		meta, ok := d.dp.IPSetMetadata[name]
		if !ok {
			meta = setMetadata{Type: IPSetTypeHashIP, MaxSize: 1234}
		}
		s := vSet{Type: string(meta.Type), Max: meta.MaxSize, Members: []string{}}
		for m := range ms.All() {
			s.Members = append(s.Members, m)
		}
		sort.Strings(s.Members)
		k[name] = s
	}
	return k
}

func (d *vDrv) putKernelSet(name string, s vSet) {
	d.dp.IPSetMembers[name] = set.FromArray(s.Members)
	d.dp.IPSetMetadata[name] = setMetadata{Name: name, Family: IPFamilyV4, Type: IPSetType(s.Type), MaxSize: s.Max,
		Revision: supportedMockRevision}
}

func (d *vDrv) newIPSets() {
	d.s = NewIPSetsWithShims(d.cfg, logrusr.NewSummarizer("verif"), d.newCmd, d.dp.sleep, d.dp.timeNow)
}

// applyEdit: other software edits the kernel's IP sets; false if nothing changes.
func (d *vDrv) applyEdit(e vEdit) bool {
	cur, present := d.dp.IPSetMembers[e.Set]
	isRef := false
	for _, r := range d.refs {
		isRef = isRef || r == e.Set
	}
	switch e.Kind {
	case "addm":
		if !present || cur.Contains(e.Member) {
			return false
		}
		cur.Add(e.Member)
	case "delm":
		if !present || !cur.Contains(e.Member) {
			return false
		}
		cur.Discard(e.Member)
	case "destroy":
		if !present || isRef {
			return false // the kernel refuses to destroy a set that rules reference
		}
		delete(d.dp.IPSetMembers, e.Set)
		delete(d.dp.IPSetMetadata, e.Set)
	case "create":
		if present {
			return false
		}
		d.putKernelSet(e.Set, e.S)
	case "setmax":
		// the set is re-created with another maxelem (content kept)
		if !present || isRef {
			return false
		}
		meta := d.dp.IPSetMetadata[e.Set]
		if meta.MaxSize == e.S.Max {
			return false
		}
		meta.MaxSize = e.S.Max
		d.dp.IPSetMetadata[e.Set] = meta
	default:
		panic("unknown edit " + e.Kind)
	}
	d.log.emit("edit", map[string]any{"kernel": d.kernel(), "kind": e.Kind, "set": e.Set})
	return true
}

func (d *vDrv) toEdit(v any) vEdit {
	m, _ := v.(map[string]any)
	e := vEdit{Kind: vStr(m["kind"]), Set: vStr(m["set"]), Member: vStr(m["member"])}
	if s, ok := m["s"]; ok {
		e.S = vToSet(s)
	}
	return e
}

// ---- command wrappers: what the mock kernel sees ---------------------------------------------------

func (d *vDrv) newCmd(name string, arg ...string) CmdIface {
	d.nCmd++
	if d.pre != nil && d.nCmd == d.preAt {
		f := d.pre
		d.pre = nil
		f()
	}
	inner := d.dp.newCmd(name, arg...)
	switch c := inner.(type) {
	case *restoreCmd:
		return &vRestore{CmdIface: inner, c: c, d: d}
	case *destroyCmd:
		return &vDestroy{CmdIface: inner, c: c, d: d}
	case *listCmd:
		return &vList{CmdIface: inner, c: c, d: d}
	}
	return inner
}

type vRestore struct {
	CmdIface
	c      *restoreCmd
	d      *vDrv
	feed   *vFeed
	stderr bytes.Buffer
	logged bool
}

// vFeed hands the restore input to the mock one line at a time, so that the kernel content can be
// recorded after every single line (ipset restore is not atomic).
type vFeed struct {
	r       *vRestore
	ch      chan string
	closed  chan struct{}
	once    sync.Once
	pending string
	buf     []byte
}

func (f *vFeed) Write(p []byte) (int, error) {
	for _, line := range strings.SplitAfter(string(p), "\n") {
		if line == "" {
			continue
		}
		select {
		case f.ch <- line:
		case <-f.closed:
			return 0, io.ErrClosedPipe
		}
	}
	return len(p), nil
}
func (f *vFeed) Flush() error { return nil }
func (f *vFeed) Close() error { f.once.Do(func() { close(f.ch) }); return nil }

// reader side: runs in the mock's goroutine
type vFeedReader struct{ f *vFeed }

func (r vFeedReader) Read(p []byte) (int, error) {
	f := r.f
	if len(f.buf) == 0 {
		if f.pending != "" {
			f.r.lineDone(f.pending, true)
			f.pending = ""
		}
		line, ok := <-f.ch
		if !ok {
			return 0, io.EOF
		}
		f.pending = line
		f.buf = []byte(line)
	}
	n := copy(p, f.buf)
	f.buf = f.buf[n:]
	return n, nil
}

func (r vFeedReader) Close() error {
	f := r.f
	select {
	case <-f.closed:
	default:
		close(f.closed)
	}
	if f.pending != "" {
		f.r.lineDone(f.pending, false)
		f.pending = ""
	} else if !f.r.logged {
		f.r.sessionFailed()
	}
	return nil
}

func (c *vRestore) lineDone(line string, ok bool) {
	parts := strings.Fields(line)
	kind, n, n2 := "", "", ""
	if len(parts) > 0 {
		kind = strings.ToLower(parts[0])
	}
	if len(parts) > 1 {
		n = parts[1]
	}
	if kind == "swap" && len(parts) > 2 {
		n2 = parts[2]
	}
	// a rejection by the (mock) kernel is reported on stderr; an injected failure is not
	injected := !ok && c.stderr.Len() == 0
	if !ok {
		c.logged = true
	}
	c.d.log.emit("cmd", map[string]any{"kind": kind, "set": n, "set2": n2, "ok": ok, "injected": injected,
		"line": strings.TrimSpace(line), "kernel": c.d.kernel()})
}

func (c *vRestore) sessionFailed() {
	c.logged = true
	c.d.log.emit("restore_fail", nil)
}

func (c *vRestore) SetStderr(w io.Writer) { c.CmdIface.SetStderr(io.MultiWriter(w, &c.stderr)) }

func (c *vRestore) StdinPipe() (WriteCloserFlusher, error) {
	w, err := c.CmdIface.StdinPipe()
	if err != nil {
		c.sessionFailed()
		return nil, err
	}
	if _, ok := w.(*BufferedCloser); !ok {
		return w, nil // one of the mock's failing pipes
	}
	c.feed = &vFeed{r: c, ch: make(chan string), closed: make(chan struct{})}
	c.c.Stdin = vFeedReader{c.feed}
	return c.feed, nil
}

func (c *vRestore) Start() error {
	err := c.CmdIface.Start()
	if err != nil && !c.logged {
		c.sessionFailed()
	}
	return err
}

func (c *vRestore) Wait() error {
	err := c.CmdIface.Wait()
	if err != nil && !c.logged {
		c.sessionFailed()
	}
	return err
}

type vDestroy struct {
	CmdIface
	c *destroyCmd
	d *vDrv
}

func (c *vDestroy) CombinedOutput() ([]byte, error) {
	injected := false
	if c.d.failDestr {
		c.d.failDestr = false
		c.d.dp.FailNextDestroy = true
		injected = true
	}
	out, err := c.CmdIface.CombinedOutput()
	c.d.log.emit("cmd", map[string]any{"kind": "destroy", "set": c.c.SetName, "set2": "", "ok": err == nil,
		"injected": injected && err != nil, "line": "destroy " + c.c.SetName, "kernel": c.d.kernel()})
	return out, err
}

type vList struct {
	CmdIface
	c       *listCmd
	d       *vDrv
	badPipe bool
	done    bool
}

func (c *vList) StdoutPipe() (io.ReadCloser, error) {
	r, err := c.CmdIface.StdoutPipe()
	if err != nil {
		c.report(false)
		return nil, err
	}
	if _, ok := r.(*io.PipeReader); !ok {
		c.badPipe = true
	}
	return r, nil
}

func (c *vList) report(ok bool) {
	if c.done {
		return
	}
	c.done = true
	name := c.c.SetName
	_, exists := c.d.dp.IPSetMembers[name]
	c.d.log.emit("list", map[string]any{"set": name, "all": c.c.allIpSets, "ok": ok, "exists": exists || c.c.allIpSets})
}

func (c *vList) Start() error {
	err := c.CmdIface.Start()
	if err != nil {
		c.report(false)
	}
	return err
}

func (c *vList) Wait() error {
	err := c.CmdIface.Wait()
	_, exists := c.d.dp.IPSetMembers[c.c.SetName]
	// a clean "no such set" answer is knowledge too
	c.report(!c.badPipe && (err == nil || (!c.c.allIpSets && !exists)))
	return err
}

// ---- executing behaviours ----------------------------------------------------------------------------

func (d *vDrv) meta(op map[string]any) IPSetMetadata {
	return IPSetMetadata{SetID: vStr(op["id"]), Type: IPSetType(vStr(op["type"])), MaxSize: vInt(op["max"])}
}

func (d *vDrv) protect(f func()) (ok bool) {
	defer func() {
		if r := recover(); r != nil {
			ok = false
		}
	}()
	f()
	return true
}

func (d *vDrv) checkAssert() {
	if d.asserted != "" {
		d.log.emit("mock_assert", map[string]any{"msg": d.asserted})
		d.asserted = ""
	}
}

// round = one pass of int_dataplane.apply(): IP set creates/updates, tables, IP set deletions.
func (d *vDrv) round(op map[string]any) {
	d.dp.RestoreOpFailures = vStrs(op["rfail"])
	d.dp.ListOpFailures = vStrs(op["lfail"])
	d.dp.FailAllRestores = op["allfail"] == true
	d.failDestr = op["dfail"] == true
	d.nCmd = 0
	d.pre = nil
	if p, ok := op["pre"].(map[string]any); ok && vInt(p["at"]) > 0 {
		e := d.toEdit(p["edit"])
		d.preAt = vInt(p["at"])
		d.pre = func() { d.applyEdit(e) }
	}
	d.lastUse = op["use"]
	d.lastResched = false
	d.log.emit("updates_begin", nil)
	ok := d.protect(func() { d.s.ApplyUpdates(nil) })
	d.dp.RestoreOpFailures, d.dp.ListOpFailures, d.dp.FailAllRestores = nil, nil, false
	d.pre = nil
	d.checkAssert()
	d.log.emit("updates_end", map[string]any{"ok": ok})
	if !ok {
		// Felix exits when ApplyUpdates gives up; the next thing that exists is a new process
		d.newIPSets()
		d.log.emit("restart", nil)
		return
	}
	// the tables are applied: rules reference the sets named in "use" (callers only use sets they asked for)
	refs := []string{}
	k := d.kernel()
	for _, id := range vStrs(op["use"]) {
		name := d.cfg.NameForMainIPSet(id)
		if _, err := d.s.GetTypeOf(id); err == nil {
			if _, ok := k[name]; ok {
				refs = append(refs, name)
			}
		}
	}
	sort.Strings(refs)
	d.refs = refs
	d.log.emit("tables", map[string]any{"refs": refs})
	d.log.emit("deletions_begin", nil)
	resched := false
	d.protect(func() { resched = d.s.ApplyDeletions() })
	d.failDestr = false
	d.dp.FailNextDestroy = false
	d.checkAssert()
	d.lastResched = resched
	d.log.emit("deletions_end", map[string]any{"resched": resched})
}

func (d *vDrv) step(op map[string]any) {
	switch vStr(op["op"]) {
	case "set":
		ms := vStrs(op["members"])
		d.s.AddOrReplaceIPSet(d.meta(op), ms)
		d.log.emit("set", map[string]any{"id": vStr(op["id"]), "s": vSet{Type: vStr(op["type"]), Max: vInt(op["max"]), Members: ms}})
	case "add":
		ms := vStrs(op["members"])
		if _, err := d.s.GetTypeOf(vStr(op["id"])); err != nil {
			return
		}
		d.s.AddMembers(vStr(op["id"]), ms)
		d.log.emit("add", map[string]any{"id": vStr(op["id"]), "members": ms})
	case "del":
		ms := vStrs(op["members"])
		if _, err := d.s.GetTypeOf(vStr(op["id"])); err != nil {
			return
		}
		d.s.RemoveMembers(vStr(op["id"]), ms)
		d.log.emit("del", map[string]any{"id": vStr(op["id"]), "members": ms})
	case "remove":
		d.s.RemoveIPSet(vStr(op["id"]))
		d.log.emit("remove", map[string]any{"id": vStr(op["id"])})
	case "edit":
		d.applyEdit(d.toEdit(op["edit"]))
	case "resync":
		d.s.QueueResync()
		d.log.emit("resync", nil)
	case "restart":
		d.newIPSets()
		d.log.emit("restart", nil)
	case "round":
		d.round(op)
	case "final":
		d.final(op)
	case "start", "end":
	default:
		panic("unknown op " + vStr(op["op"]))
	}
}

// final: request a resync and run fault-free rounds until Felix reports nothing left to do
func (d *vDrv) final(op map[string]any) {
	d.step(map[string]any{"op": "resync"})
	use := op["use"]
	if use == nil {
		use = d.lastUse
	}
	for i := 0; i < 60; i++ {
		d.round(map[string]any{"use": use})
		if !d.lastResched {
			break
		}
	}
	d.log.emit("final", nil)
}

func (d *vDrv) run(t int, beh []map[string]any) {
	d.dp = newMockDataplane()
	d.refs = nil
	d.log.t = t
	if len(beh) > 0 && vStr(beh[0]["op"]) == "start" {
		if km, ok := beh[0]["kernel"].(map[string]any); ok {
			for n, s := range km {
				d.putKernelSet(n, vToSet(s))
			}
		}
	}
	d.newIPSets()
	d.log.emit("reset", map[string]any{"kernel": d.kernel()})
	for _, op := range beh {
		d.step(op)
	}
	d.step(map[string]any{"op": "final"})
}

func TestVerifC16(t *testing.T) {
	log.SetOutput(io.Discard)
	log.SetLevel(log.ErrorLevel)
	out := os.Getenv("VERIF_OUT")
	if out == "" {
		t.Skip("VERIF_OUT not set")
	}
	f, err := os.Create(out)
	if err != nil {
		t.Fatal(err)
	}
	defer f.Close()
	lg := &vLog{w: bufio.NewWriterSize(f, 1<<20)}
	defer lg.w.Flush()
	d := &vDrv{log: lg}
	gomega.RegisterFailHandler(func(message string, callerSkip ...int) {
		d.asserted = message
		panic("mock assertion: " + message)
	})
	d.cfg = NewIPVersionConfig(IPFamilyV4, "cali", rules.AllHistoricIPSetNamePrefixes, rules.LegacyV4IPSetNames)
	var behs [][]map[string]any
	if p := os.Getenv("VERIF_BEH"); p != "" {
		b, err := os.ReadFile(p)
		if err != nil {
			t.Fatal(err)
		}
		if err := json.Unmarshal(b, &behs); err != nil {
			t.Fatal(err)
		}
	}
	seed, _ := strconv.ParseInt(os.Getenv("VERIF_SEED"), 10, 64)
	if seed == 0 {
		seed = 1
	}
	n, _ := strconv.Atoi(os.Getenv("VERIF_N"))
	tn := 0
	for _, b := range behs {
		tn++
		d.run(tn, b)
	}
	for i := 0; i < n; i++ {
		tn++
		d.run(tn, vRandomBehaviour(rand.New(rand.NewSource(seed*1000003+int64(i)))))
	}
	fmt.Fprintf(os.Stderr, "verif C16: %d traces\n", tn)
}

// vRandomBehaviour: seeded random history in the vocabulary of Gen_RIPSets.tla over a larger universe.
func vRandomBehaviour(rnd *rand.Rand) []map[string]any {
	ids := []string{"a", "b", "c", "d"}
	typ := map[string]string{"a": "hash:ip", "b": "hash:net", "c": "hash:ip", "d": "hash:net"}
	pool := map[string][]string{
		"hash:ip":  {"10.0.0.1", "10.0.0.2", "10.0.0.3", "10.0.0.4", "10.0.0.5"},
		"hash:net": {"10.1.0.0/24", "10.2.0.0/16", "10.3.0.0/24", "10.4.4.0/24"},
	}
	maxes := []int{1234, 5678}
	subset := func(t string) []string {
		out := []string{}
		for _, m := range pool[t] {
			if rnd.Intn(2) == 0 {
				out = append(out, m)
			}
		}
		return out
	}
	kset := func(t string) map[string]any {
		return map[string]any{"type": t, "max": maxes[rnd.Intn(2)], "members": subset(t)}
	}
	owned := []string{"cali40a", "cali40b", "cali40c", "cali40d", "cali40old", "cali4t0", "cali4t1", "cali4t5", "felix-4old"}
	// foreign names, also ones that merely contain a Felix prefix at a non-leading position
	foreign := []string{"other", "cali60a", "calico-x", "bak-cali40a", "fw-felix-4-allow", "x-cali4t3", "my-cali60s", "n-felix-4"}
	ntyp := func(n string) string {
		if len(n) == 7 && n[:6] == "cali40" {
			if t, ok := typ[n[6:]]; ok {
				return t
			}
		}
		return []string{"hash:ip", "hash:net"}[rnd.Intn(2)]
	}
	k := map[string]any{}
	for _, n := range append(append([]string{}, owned...), foreign...) {
		if rnd.Intn(3) == 0 {
			k[n] = kset(ntyp(n))
		}
	}
	beh := []map[string]any{{"op": "start", "kernel": k}}
	desired := map[string]bool{}
	randEdit := func() map[string]any {
		all := append(append([]string{}, owned...), foreign...)
		n := all[rnd.Intn(len(all))]
		t := ntyp(n)
		switch rnd.Intn(6) {
		case 0, 1:
			return map[string]any{"kind": "addm", "set": n, "member": pool["hash:ip"][rnd.Intn(5)]}
		case 2:
			return map[string]any{"kind": "delm", "set": n, "member": pool[t][rnd.Intn(len(pool[t]))]}
		case 3:
			return map[string]any{"kind": "destroy", "set": n}
		case 4:
			return map[string]any{"kind": "create", "set": n, "s": kset(t)}
		}
		return map[string]any{"kind": "setmax", "set": n, "s": map[string]any{"type": t, "max": maxes[rnd.Intn(2)], "members": []string{}}}
	}
	// addm uses hash:ip members for every set; keep net sets consistent
	fixEdit := func(e map[string]any) map[string]any {
		if e["kind"] == "addm" {
			t := ntyp(e["set"].(string))
			e["member"] = pool[t][rnd.Intn(len(pool[t]))]
		}
		return e
	}
	use := func() []string {
		out := []string{}
		for _, id := range ids {
			if desired[id] && rnd.Intn(3) > 0 {
				out = append(out, id)
			}
		}
		return out
	}
	steps := 6 + rnd.Intn(16)
	for i := 0; i < steps; i++ {
		id := ids[rnd.Intn(len(ids))]
		switch c := rnd.Intn(20); {
		case c < 4:
			desired[id] = true
			beh = append(beh, map[string]any{"op": "set", "id": id, "type": typ[id], "max": maxes[rnd.Intn(2)], "members": subset(typ[id])})
		case c < 6:
			if desired[id] {
				beh = append(beh, map[string]any{"op": "add", "id": id, "members": subset(typ[id])})
			}
		case c < 8:
			if desired[id] {
				beh = append(beh, map[string]any{"op": "del", "id": id, "members": subset(typ[id])})
			}
		case c < 9:
			if desired[id] {
				delete(desired, id)
				beh = append(beh, map[string]any{"op": "remove", "id": id})
			}
		case c < 12:
			beh = append(beh, map[string]any{"op": "edit", "edit": fixEdit(randEdit())})
		case c < 13:
			beh = append(beh, map[string]any{"op": "resync"})
		case c < 14:
			desired = map[string]bool{}
			beh = append(beh, map[string]any{"op": "restart"})
		default:
			op := map[string]any{"op": "round", "use": use()}
			switch rnd.Intn(12) {
			case 0:
				op["rfail"] = []string{[]string{"pipe", "write", "write-ip", "close", "start", "pre-update", "post-del", "post-update"}[rnd.Intn(8)]}
			case 1:
				op["lfail"] = []string{[]string{"pipe", "read", "close", "start", "rc"}[rnd.Intn(5)]}
			case 2:
				op["dfail"] = true
			case 3:
				op["allfail"] = true
			case 4, 5:
				op["pre"] = map[string]any{"at": 1 + rnd.Intn(5), "edit": fixEdit(randEdit())}
			case 6:
				op["rfail"] = []string{"post-del", "post-update"}
				op["lfail"] = []string{"rc"}
			}
			beh = append(beh, op)
			if op["allfail"] == true {
				desired = map[string]bool{}
			}
		}
	}
	return beh
}
