// C12 (all dataplanes agree): the BPF leg's first half.  Reads the proto messages of the generated endpoint
// policy states, fills a bpfEndpointManager with the policies / profiles exactly as its OnUpdate handlers do
// (maps keyed by types.PolicyID / types.ProfileID) and calls the REAL extractRules for ingress and egress -
// this is where staged policies are dropped and the end-of-tier action is decided - and dumps the resulting
// polprog.Rules.  The external driver (harness/cmd/agree) compiles them with the real polprog.Builder and
// executes them.  Injected with `go test -overlay`; nothing here is part of /repo.
package intdataplane

import (
	"encoding/json"
	"os"
	"testing"

	"google.golang.org/protobuf/encoding/protojson"

	"github.com/projectcalico/calico/felix/bpf/polprog"
	"github.com/projectcalico/calico/felix/proto"
	"github.com/projectcalico/calico/felix/types"
)

type vc12Case struct {
	Case     int               `json:"case"`
	Policies []json.RawMessage `json:"policies"` // protojson ActivePolicyUpdate
	Profiles []json.RawMessage `json:"profiles"` // protojson ActiveProfileUpdate
	Endpoint json.RawMessage   `json:"endpoint"` // protojson WorkloadEndpoint
}

type vc12Rule struct {
	Rule    json.RawMessage `json:"rule"` // protojson proto.Rule
	MatchID uint64          `json:"matchID"`
}
type vc12Policy struct {
	Name      string     `json:"name"`
	Namespace string     `json:"namespace"`
	Kind      string     `json:"kind"`
	Rules     []vc12Rule `json:"rules"`
}
type vc12Tier struct {
	Name      string       `json:"name"`
	EndAction string       `json:"endAction"`
	EndRuleID uint64       `json:"endRuleID"`
	Policies  []vc12Policy `json:"policies"`
}
type vc12Rules struct {
	Tiers    []vc12Tier   `json:"tiers"`
	Profiles []vc12Policy `json:"profiles"`
	Panic    string       `json:"panic"`
}
type vc12Out struct {
	Case    int       `json:"case"`
	Ingress vc12Rules `json:"ingress"`
	Egress  vc12Rules `json:"egress"`
}

func vc12Pols(ps []polprog.Policy) []vc12Policy {
	out := []vc12Policy{}
	for _, p := range ps {
		q := vc12Policy{Name: p.Name, Namespace: p.Namespace, Kind: p.Kind, Rules: []vc12Rule{}}
		for _, r := range p.Rules {
			b, err := protojson.Marshal(r.Rule)
			if err != nil {
				panic(err)
			}
			q.Rules = append(q.Rules, vc12Rule{Rule: b, MatchID: r.MatchID})
		}
		out = append(out, q)
	}
	return out
}

func vc12Extract(m *bpfEndpointManager, ep *proto.WorkloadEndpoint, dir PolDirection) (out vc12Rules) {
	defer func() {
		if e := recover(); e != nil {
			out = vc12Rules{Tiers: []vc12Tier{}, Profiles: []vc12Policy{}, Panic: "extractRules panicked"}
		}
	}()
	r := m.extractRules(ep.Tiers, ep.ProfileIds, dir)
	out.Tiers = []vc12Tier{}
	for _, t := range r.Tiers {
		out.Tiers = append(out.Tiers, vc12Tier{Name: t.Name, EndAction: string(t.EndAction), EndRuleID: t.EndRuleID, Policies: vc12Pols(t.Policies)})
	}
	out.Profiles = vc12Pols(r.Profiles)
	return
}

func TestVerifC12ExtractRules(t *testing.T) {
	in, outPath := os.Getenv("VERIF_C12_PROTOS"), os.Getenv("VERIF_OUT")
	if in == "" || outPath == "" {
		t.Skip("VERIF_C12_PROTOS / VERIF_OUT not set: /verif driver, not a unit test")
	}
	raw, err := os.ReadFile(in)
	if err != nil {
		t.Fatal(err)
	}
	var cases []vc12Case
	if err := json.Unmarshal(raw, &cases); err != nil {
		t.Fatal(err)
	}
	f, err := os.Create(outPath)
	if err != nil {
		t.Fatal(err)
	}
	defer f.Close()
	enc := json.NewEncoder(f)
	for _, c := range cases {
		m := &bpfEndpointManager{
			policies: map[types.PolicyID]*proto.Policy{},
			profiles: map[types.ProfileID]*proto.Profile{},
		}
		for _, b := range c.Policies {
			var u proto.ActivePolicyUpdate
			if err := protojson.Unmarshal(b, &u); err != nil {
				t.Fatal(err)
			}
			// bpfEndpointManager.onPolicyUpdate
			m.policies[types.ProtoToPolicyID(u.Id)] = u.Policy
		}
		for _, b := range c.Profiles {
			var u proto.ActiveProfileUpdate
			if err := protojson.Unmarshal(b, &u); err != nil {
				t.Fatal(err)
			}
			// bpfEndpointManager.onProfileUpdate
			m.profiles[types.ProtoToProfileID(u.Id)] = u.Profile
		}
		var ep proto.WorkloadEndpoint
		if err := protojson.Unmarshal(c.Endpoint, &ep); err != nil {
			t.Fatal(err)
		}
		o := vc12Out{Case: c.Case, Ingress: vc12Extract(m, &ep, PolDirnIngress), Egress: vc12Extract(m, &ep, PolDirnEgress)}
		if err := enc.Encode(o); err != nil {
			t.Fatal(err)
		}
	}
}
