// Shared plumbing for the /verif in-package manager drivers (C41 state half, C43 manager level, C44).
// Injected with `go test -overlay`; nothing here is part of /repo.  All identifiers are prefixed vm.
package intdataplane

import (
	"bufio"
	"encoding/json"
	"os"
	"sort"
	"strconv"
	"testing"

	"github.com/onsi/gomega"
)

type vmLog struct {
	f *os.File
	w *bufio.Writer
	T int
}

func vmOpen(t *testing.T) *vmLog {
	// the package mocks (mocknetlink, MockIPSets) assert with gomega: a failed assertion fails the driver
	gomega.RegisterTestingT(t)
	p := os.Getenv("VERIF_OUT")
	if p == "" {
		t.Skip("VERIF_OUT not set: /verif driver, not a unit test")
	}
	f, err := os.Create(p)
	if err != nil {
		t.Fatal(err)
	}
	return &vmLog{f: f, w: bufio.NewWriterSize(f, 1<<20)}
}

func (l *vmLog) Reset(fields map[string]any) {
	l.T++
	l.Emit("reset", fields)
}

func (l *vmLog) Emit(ev string, fields map[string]any) {
	m := make(map[string]any, len(fields)+2)
	for k, v := range fields {
		m[k] = v
	}
	m["ev"] = ev
	m["t"] = l.T
	b, err := json.Marshal(m)
	if err != nil {
		panic(err)
	}
	l.w.Write(b)
	l.w.WriteByte('\n')
}

func (l *vmLog) Close(t *testing.T) {
	if err := l.w.Flush(); err != nil {
		t.Fatal(err)
	}
	if err := l.f.Close(); err != nil {
		t.Fatal(err)
	}
}

func vmSeed() int64 {
	s, _ := strconv.ParseInt(os.Getenv("VERIF_SEED"), 10, 64)
	if s == 0 {
		s = 1
	}
	return s
}

func vmN() int {
	n, _ := strconv.Atoi(os.Getenv("VERIF_N"))
	return n
}

func vmEnvInt(name string, def int) int {
	if v := os.Getenv(name); v != "" {
		if n, err := strconv.Atoi(v); err == nil {
			return n
		}
	}
	return def
}

func vmBehaviours(t *testing.T) [][]map[string]any {
	p := os.Getenv("VERIF_BEH")
	if p == "" {
		return nil
	}
	b, err := os.ReadFile(p)
	if err != nil {
		t.Fatal(err)
	}
	var out [][]map[string]any
	if err := json.Unmarshal(b, &out); err != nil {
		t.Fatal(err)
	}
	return out
}

// vmOnly: optional restriction of a re-execution to some trace numbers (VERIF_ONLY_FILE = JSON list).
// Skipped traces keep their number (Skip) so that the remaining ones are comparable with the first run.
func vmOnly(t *testing.T) map[int]bool {
	p := os.Getenv("VERIF_ONLY_FILE")
	if p == "" {
		return nil
	}
	b, err := os.ReadFile(p)
	if err != nil {
		t.Fatal(err)
	}
	var ids []int
	if err := json.Unmarshal(b, &ids); err != nil {
		t.Fatal(err)
	}
	out := map[int]bool{}
	for _, i := range ids {
		out[i] = true
	}
	return out
}

// Skip reports whether the next trace is to be skipped (and then consumes its number).
func (l *vmLog) Skip(only map[int]bool) bool {
	if only == nil || only[l.T+1] {
		return false
	}
	l.T++
	return true
}

func vmStr(v any) string {
	s, _ := v.(string)
	return s
}

func vmInt(v any) int {
	switch x := v.(type) {
	case float64:
		return int(x)
	case int:
		return x
	}
	return 0
}

func vmBool(v any) bool {
	b, _ := v.(bool)
	return b
}

func vmStrs(v any) []string {
	out := []string{}
	if a, ok := v.([]any); ok {
		for _, x := range a {
			out = append(out, vmStr(x))
		}
	}
	return out
}

func vmSorted(ss []string) []string {
	out := append([]string{}, ss...)
	sort.Strings(out)
	return out
}
