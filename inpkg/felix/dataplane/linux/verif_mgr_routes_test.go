// /verif driver for C43 (manager level): feeds proto RouteUpdate/RouteRemove, VTEP and host-metadata
// messages to real vxlanManager, ipipManager and noEncapManager instances that share one recording
// route table (the package's mockRouteTable, indexed by route class) and logs all recorded targets by
// (class, interface) after every CompleteDeferredWork.  The driver computes no expectation.
package intdataplane

import (
	"fmt"
	"math/rand"
	"net"
	"sort"
	"testing"

	"github.com/sirupsen/logrus"
	"github.com/vishvananda/netlink"

	dpsets "github.com/projectcalico/calico/felix/dataplane/ipsets"
	"github.com/projectcalico/calico/felix/dataplane/linux/dataplanedefs"
	"github.com/projectcalico/calico/felix/ip"
	"github.com/projectcalico/calico/felix/netlinkshim/mocknetlink"
	"github.com/projectcalico/calico/felix/proto"
	"github.com/projectcalico/calico/felix/routetable"
	"github.com/projectcalico/calico/felix/rules"
	"github.com/projectcalico/calico/lib/logrusr"
)

const (
	vmRtHost      = "n1"
	vmRtLocalAddr = "172.0.0.2" // on eth0 of the mock netlink dataplane
	vmRtLocalVTEP = "10.0.1.1"
)

type vmRt struct {
	log   *vmLog
	rt    *mockRouteTable
	vxlan *vxlanManager
	ipip  *ipipManager
	noenc *noEncapManager
}

func vmNewNetlink(t *testing.T) *mocknetlink.MockNetlinkDataplane {
	dp := mocknetlink.New()
	if _, err := dp.NewMockNetlink(); err != nil {
		t.Fatal(err)
	}
	dp.ImmediateLinkUp = true
	eth0 := dp.AddIface(2, "eth0", true, true)
	if err := dp.AddrAdd(eth0, &netlink.Addr{IPNet: &net.IPNet{IP: net.ParseIP(vmRtLocalAddr).To4(), Mask: net.CIDRMask(24, 32)}}); err != nil {
		t.Fatal(err)
	}
	dp.ResetDeltas()
	return dp
}

func (d *vmRt) start(t *testing.T) {
	d.rt = &mockRouteTable{currentRoutes: map[string][]routetable.Target{}}
	opRecorder := logrusr.NewSummarizer("verif")
	dpConfig := Config{
		MaxIPSetSize:             1024,
		Hostname:                 vmRtHost,
		ProgramIPIPClusterRoutes: true,
		IPIPMTU:                  1440,
		RulesConfig: rules.Config{
			VXLANVNI:  4096,
			VXLANPort: 4789,
		},
	}
	d.vxlan = newVXLANManagerWithShims(dpsets.NewMockIPSets(), d.rt, &mockVXLANFDB{}, dataplanedefs.VXLANIfaceNameV4,
		4, 1410, dpConfig, opRecorder, vmNewNetlink(t))
	d.ipip = newIPIPManagerWithShims(d.rt, dataplanedefs.IPIPIfaceName, 4, 1440, dpConfig, opRecorder, vmNewNetlink(t))
	d.noenc = newNoEncapManagerWithSims(d.rt, 4, dpConfig, opRecorder, vmNewNetlink(t))
	d.log.Reset(map[string]any{
		"host": vmRtHost,
		"devs": map[string]any{
			"vxlan": dataplanedefs.VXLANIfaceNameV4, "ipip": dataplanedefs.IPIPIfaceName, "none": "",
			"parent": "eth0", "noif": routetable.InterfaceNone,
		},
	})
}

func (d *vmRt) send(msg any) {
	d.vxlan.OnUpdate(msg)
	d.ipip.OnUpdate(msg)
	d.noenc.OnUpdate(msg)
}

// vmCIDRJSON renders a CIDR string as the octet form used by specs/lib/Nets.tla.
func vmCIDRJSON(s string) map[string]any {
	c, err := ip.CIDRFromString(s)
	if err != nil {
		panic(err)
	}
	octets := []int{}
	for _, b := range c.Addr().AsNetIP() {
		octets = append(octets, int(b))
	}
	if c.Version() == 4 && len(octets) == 16 {
		octets = octets[12:]
	}
	return map[string]any{"a": octets, "n": int(c.Prefix())}
}

type vmRoute struct {
	Dst                     string
	RW, LW, RT              bool
	Pool, Node, NodeIP      string
	Same, LocalWl, Borrowed bool
}

var vmPoolTypes = map[string]proto.IPPoolType{"vxlan": proto.IPPoolType_VXLAN, "ipip": proto.IPPoolType_IPIP, "none": proto.IPPoolType_NO_ENCAP, "": proto.IPPoolType_NONE}

func (d *vmRt) routeUpdate(r vmRoute) {
	var types proto.RouteType
	if r.RW {
		types |= proto.RouteType_REMOTE_WORKLOAD
	}
	if r.LW {
		types |= proto.RouteType_LOCAL_WORKLOAD
	}
	if r.RT {
		types |= proto.RouteType_REMOTE_TUNNEL
	}
	d.send(&proto.RouteUpdate{
		Types: types, IpPoolType: vmPoolTypes[r.Pool], Dst: r.Dst, DstNodeName: r.Node, DstNodeIp: r.NodeIP,
		SameSubnet: r.Same, LocalWorkload: r.LocalWl, Borrowed: r.Borrowed,
	})
	d.log.Emit("route_update", map[string]any{"dst": r.Dst, "r": map[string]any{
		"present": true, "cidr": vmCIDRJSON(r.Dst), "rw": r.RW, "lw": r.LW, "rt": r.RT, "pool": r.Pool, "node": r.Node,
		"node_ip": r.NodeIP, "same": r.Same, "local_wl": r.LocalWl, "borrowed": r.Borrowed,
	}})
}

func (d *vmRt) routeRemove(dst string) {
	d.send(&proto.RouteRemove{Dst: dst})
	d.log.Emit("route_remove", map[string]any{"dst": dst})
}

var vmNodeParent = map[string]string{"n1": vmRtLocalAddr, "n2": "172.0.0.3", "n3": "172.9.0.3", "n4": "172.0.0.4"}

func (d *vmRt) vtepUpdate(node, addr string) {
	d.send(&proto.VXLANTunnelEndpointUpdate{
		Node: node, Mac: "00:0a:74:9d:68:" + fmt.Sprintf("%02x", len(node)+int(node[len(node)-1])%64),
		Ipv4Addr: addr, ParentDeviceIp: vmNodeParent[node],
	})
	d.log.Emit("vtep_update", map[string]any{"node": node, "addr": addr})
}

func (d *vmRt) vtepRemove(node string) {
	d.send(&proto.VXLANTunnelEndpointRemove{Node: node})
	d.log.Emit("vtep_remove", map[string]any{"node": node})
}

func (d *vmRt) hostUpdate(node, addr string) {
	d.send(&proto.HostMetadataUpdate{Hostname: node, Ipv4Addr: addr})
	d.log.Emit("host_update", map[string]any{"node": node, "ip": addr})
}

func (d *vmRt) hostRemove(node string) {
	d.send(&proto.HostMetadataRemove{Hostname: node})
	d.log.Emit("host_remove", map[string]any{"node": node})
}

func (d *vmRt) flush(t *testing.T) {
	for _, err := range []error{d.vxlan.CompleteDeferredWork(), d.ipip.CompleteDeferredWork(), d.noenc.CompleteDeferredWork()} {
		if err != nil {
			t.Fatal(err)
		}
	}
	tables := []map[string]any{}
	for class, byIface := range d.rt.currentRoutesByClass {
		for iface, targets := range byIface {
			if len(targets) == 0 {
				continue
			}
			ts := []map[string]any{}
			for _, tg := range targets {
				gw := ""
				if tg.GW != nil {
					gw = tg.GW.String()
				}
				ts = append(ts, map[string]any{"cidr": vmCIDRJSON(tg.CIDR.String()), "gw": gw, "type": string(tg.Type), "s": tg.CIDR.String()})
			}
			sort.Slice(ts, func(i, j int) bool { return ts[i]["s"].(string) < ts[j]["s"].(string) })
			for _, x := range ts {
				delete(x, "s")
			}
			tables = append(tables, map[string]any{"class": class.String(), "iface": iface, "targets": ts})
		}
	}
	sort.Slice(tables, func(i, j int) bool {
		a, b := tables[i], tables[j]
		if a["class"].(string) != b["class"].(string) {
			return a["class"].(string) < b["class"].(string)
		}
		return a["iface"].(string) < b["iface"].(string)
	})
	d.log.Emit("flush", map[string]any{"tables": tables})
}

func vmRouteOf(dst string, v any) vmRoute {
	m, _ := v.(map[string]any)
	return vmRoute{Dst: dst, RW: vmBool(m["rw"]), LW: vmBool(m["lw"]), RT: vmBool(m["rt"]), Pool: vmStr(m["pool"]),
		Node: vmStr(m["node"]), NodeIP: vmStr(m["node_ip"]), Same: vmBool(m["same"]), LocalWl: vmBool(m["local_wl"]),
		Borrowed: vmBool(m["borrowed"])}
}

func (d *vmRt) step(t *testing.T, op map[string]any) bool {
	switch vmStr(op["op"]) {
	case "route_update":
		d.routeUpdate(vmRouteOf(vmStr(op["dst"]), op["r"]))
	case "route_remove":
		d.routeRemove(vmStr(op["dst"]))
	case "vtep_update":
		d.vtepUpdate(vmStr(op["node"]), vmStr(op["addr"]))
	case "vtep_remove":
		d.vtepRemove(vmStr(op["node"]))
	case "host_update":
		d.hostUpdate(vmStr(op["node"]), vmStr(op["ip"]))
	case "host_remove":
		d.hostRemove(vmStr(op["node"]))
	case "flush":
		d.flush(t)
		return true
	case "end":
	default:
		t.Fatalf("unknown op %v", op)
	}
	return false
}

// random leg: more nodes, blocks and addresses than the TLC universes; every flag combination the
// resolver can produce, pools of all kinds, node addresses and VTEPs changing, removes.
func (d *vmRt) random(t *testing.T, rnd *rand.Rand) {
	d.start(t)
	nodes := []string{"n2", "n3", "n4"}
	nodeIPs := map[string][]string{"n2": {"172.0.0.3", "172.0.0.33"}, "n3": {"172.9.0.3", "172.9.0.33"}, "n4": {"172.0.0.4"}}
	sameSubnet := map[string]bool{"n2": true, "n4": true}
	curIP := map[string]string{}
	pools := []string{"vxlan", "ipip", "none", "vxlan", "vxlan", ""}
	crossSubnet := map[string]bool{} // per block: the pool is in cross-subnet mode
	blockPool := map[string]string{}
	poolOf := func(key string) string {
		if p, ok := blockPool[key]; ok && rnd.Intn(6) > 0 {
			return p
		}
		blockPool[key] = pools[rnd.Intn(len(pools))]
		crossSubnet[key] = rnd.Intn(2) == 0
		return blockPool[key]
	}
	nodeIP := func(n string) string {
		if ipx, ok := curIP[n]; ok && rnd.Intn(5) > 0 {
			return ipx
		}
		curIP[n] = nodeIPs[n][rnd.Intn(len(nodeIPs[n]))]
		return curIP[n]
	}
	pFlush := []float64{0.15, 0.35, 0.7}[rnd.Intn(3)]
	if rnd.Intn(4) > 0 {
		// usual start of day: local information first
		d.vtepUpdate(vmRtHost, vmRtLocalVTEP)
		d.hostUpdate(vmRtHost, vmRtLocalAddr)
	}
	steps := 10 + rnd.Intn(40)
	for i := 0; i < steps; i++ {
		switch c := rnd.Intn(20); {
		case c < 7: // remote block or borrowed remote address
			n := nodes[rnd.Intn(len(nodes))]
			blk := 1 + rnd.Intn(5) // block 1 is usually local: a RouteUpdate may flip its owner without a RouteRemove
			key := fmt.Sprintf("b%d", blk)
			pool := poolOf(key)
			r := vmRoute{RW: true, Pool: pool, Node: n, NodeIP: nodeIP(n)}
			if rnd.Intn(3) == 0 {
				r.Dst = fmt.Sprintf("10.0.%d.%d/32", blk, 2+rnd.Intn(3))
				r.Borrowed = true
			} else {
				r.Dst = fmt.Sprintf("10.0.%d.0/26", blk)
			}
			// SameSubnet as the resolver computes it: cross-subnet pool and the owner in our subnet
			r.Same = pool != "none" && pool != "" && crossSubnet[key] && sameSubnet[n]
			if rnd.Intn(8) == 0 {
				r.RT = true // a tunnel address that is a /32 block of its own
				r.Dst = fmt.Sprintf("10.0.%d.1/32", blk)
				r.Borrowed = false
			}
			d.routeUpdate(r)
		case c < 8: // borrowed remote tunnel address
			n := nodes[rnd.Intn(len(nodes))]
			blk := 2 + rnd.Intn(4)
			key := fmt.Sprintf("b%d", blk)
			pool := poolOf(key)
			d.routeUpdate(vmRoute{Dst: fmt.Sprintf("10.0.%d.9/32", blk), RT: true, Borrowed: true, Pool: pool, Node: n, NodeIP: nodeIP(n),
				Same: pool != "none" && pool != "" && crossSubnet[key] && sameSubnet[n]})
		case c < 11: // local block, local workload, local /32 block
			key := "b1"
			flip := rnd.Intn(4) == 0 // a usually-remote block becomes local (owner flip, no RouteRemove)
			if flip {
				key = "b2"
			}
			pool := poolOf(key)
			r := vmRoute{LW: true, Pool: pool, Node: vmRtHost, NodeIP: vmRtLocalAddr, Same: crossSubnet[key]}
			switch c := rnd.Intn(4); {
			case flip:
				r.Dst = "10.0.2.0/26"
			case c == 0:
				r.Dst = "10.0.1.0/26"
			case c == 1:
				r.Dst = "10.0.1.64/26"
			case c == 2:
				r.Dst = fmt.Sprintf("10.0.1.%d/32", 2+rnd.Intn(3))
				r.LocalWl = rnd.Intn(3) > 0
			default:
				r.Dst = "10.0.9.1/32" // a /32 block
				r.LocalWl = rnd.Intn(2) == 0
			}
			d.routeUpdate(r)
		case c < 13:
			dsts := []string{}
			for _, m := range []map[string]*proto.RouteUpdate{d.vxlan.routeMgr.routesByDest, d.ipip.routeMgr.routesByDest, d.noenc.routeMgr.routesByDest,
				d.vxlan.routeMgr.localIPAMBlocks, d.noenc.routeMgr.localIPAMBlocks} {
				for k := range m {
					dsts = append(dsts, k)
				}
			}
			dsts = vmDistinctSorted(dsts)
			if len(dsts) > 0 && rnd.Intn(5) > 0 {
				d.routeRemove(dsts[rnd.Intn(len(dsts))])
			} else {
				d.routeRemove(fmt.Sprintf("10.0.%d.0/26", 1+rnd.Intn(5)))
			}
		case c < 15:
			n := nodes[rnd.Intn(len(nodes))]
			d.vtepUpdate(n, fmt.Sprintf("10.0.%c.%d", n[1], 1+98*rnd.Intn(2)))
		case c < 16:
			d.vtepRemove(append(nodes, vmRtHost)[rnd.Intn(4)])
		case c < 17:
			d.vtepUpdate(vmRtHost, vmRtLocalVTEP)
		case c < 18:
			n := nodes[rnd.Intn(len(nodes))]
			d.hostUpdate(n, nodeIP(n))
		case c < 19:
			if rnd.Intn(2) == 0 {
				d.hostUpdate(vmRtHost, vmRtLocalAddr)
			} else {
				d.hostRemove(append(nodes, vmRtHost)[rnd.Intn(4)])
			}
		default:
			n := nodes[rnd.Intn(len(nodes))]
			d.hostUpdate(n, "")
		}
		if rnd.Float64() < pFlush {
			d.flush(t)
		}
	}
	d.flush(t)
}

func TestVerifMgrRoutes(t *testing.T) {
	logrus.SetLevel(logrus.PanicLevel)
	lg := vmOpen(t)
	d := &vmRt{log: lg}
	// a panic of a real manager is logged as a "panic" event, which the trace specification never accepts
	guarded := func(f func()) {
		defer func() {
			if rec := recover(); rec != nil {
				d.log.Emit("panic", map[string]any{"msg": fmt.Sprint(rec)})
			}
		}()
		f()
	}
	for _, b := range vmBehaviours(t) {
		guarded(func() {
			d.start(t)
			flushed := false
			for _, op := range b {
				flushed = d.step(t, op)
			}
			if !flushed {
				d.flush(t)
			}
		})
	}
	seed := vmSeed()
	for i := 0; i < vmN(); i++ {
		guarded(func() { d.random(t, rand.New(rand.NewSource(seed*1000003+int64(i)))) })
	}
	lg.Close(t)
}
