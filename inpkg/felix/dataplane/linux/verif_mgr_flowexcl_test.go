// /verif driver for C41 (state half): feeds endpoint messages to two real flowtableExclusionManager
// instances (IPv4 and IPv6) backed by a recording IPSetsDataplane, and logs the programmed
// no-flow-offload sets after every CompleteDeferredWork.  It computes no expectation.
package intdataplane

import (
	"fmt"
	"math/rand"
	"sort"
	"strings"
	"testing"

	dpsets "github.com/projectcalico/calico/felix/dataplane/ipsets"
	"github.com/projectcalico/calico/felix/ipsets"
	"github.com/projectcalico/calico/felix/proto"
	"github.com/projectcalico/calico/felix/rules"
)

// vmRecIPSets records the raw member list of every AddOrReplaceIPSet call (the package's
// MockIPSets supplies the rest of the interface).
type vmRecIPSets struct {
	*dpsets.MockIPSets
	last  map[string][]string
	types map[string]ipsets.IPSetType
	calls int
}

func vmNewRecIPSets() *vmRecIPSets {
	return &vmRecIPSets{MockIPSets: dpsets.NewMockIPSets(), last: map[string][]string{}, types: map[string]ipsets.IPSetType{}}
}

func (s *vmRecIPSets) AddOrReplaceIPSet(meta ipsets.IPSetMetadata, members []string) {
	s.last[meta.SetID] = append([]string{}, members...)
	s.types[meta.SetID] = meta.Type
	s.calls++
}

type vmAddr struct {
	IP  string `json:"ip"`
	Len int    `json:"len"`
}

func (a vmAddr) String() string {
	if a.Len == 0 {
		return a.IP
	}
	return fmt.Sprintf("%s/%d", a.IP, a.Len)
}

func vmAddrStrings(as []vmAddr) []string {
	out := make([]string, 0, len(as))
	for _, a := range as {
		out = append(out, a.String())
	}
	return out
}

type vmFeat struct {
	Dscp, Ibw, Ebw, Ipr, Epr, Imc, Emc int
	NilControls                        bool // send QosControls == nil (only meaningful when all numbers are 0)
}

func (f vmFeat) json() map[string]any {
	return map[string]any{"dscp": f.Dscp, "ibw": f.Ibw, "ebw": f.Ebw, "ipr": f.Ipr, "epr": f.Epr, "imc": f.Imc, "emc": f.Emc}
}

func (f vmFeat) policies() []*proto.QoSPolicy {
	var out []*proto.QoSPolicy
	for i := 0; i < f.Dscp; i++ {
		out = append(out, &proto.QoSPolicy{Destination: fmt.Sprintf("10.%d.0.0/16", 100+i), Dscp: int32(10 + i)})
	}
	return out
}

func (f vmFeat) controls() *proto.QoSControls {
	if f.NilControls && f.Ibw == 0 && f.Ebw == 0 && f.Ipr == 0 && f.Epr == 0 && f.Imc == 0 && f.Emc == 0 {
		return nil
	}
	return &proto.QoSControls{
		IngressBandwidth: int64(f.Ibw), EgressBandwidth: int64(f.Ebw),
		IngressBurst: int64(f.Ibw) * 2, EgressBurst: int64(f.Ebw) * 2,
		IngressPacketRate: int64(f.Ipr), EgressPacketRate: int64(f.Epr),
		IngressPacketBurst: int64(f.Ipr) * 2, EgressPacketBurst: int64(f.Epr) * 2,
		IngressMaxConnections: int64(f.Imc), EgressMaxConnections: int64(f.Emc),
	}
}

type vmFlowExcl struct {
	log    *vmLog
	m4, m6 *flowtableExclusionManager
	s4, s6 *vmRecIPSets
}

func (d *vmFlowExcl) start() {
	d.s4, d.s6 = vmNewRecIPSets(), vmNewRecIPSets()
	d.m4 = newFlowtableExclusionManager(d.s4, 4, 1024)
	d.m6 = newFlowtableExclusionManager(d.s6, 6, 1024)
	d.log.Reset(nil)
}

func (d *vmFlowExcl) send(msg any) {
	d.m4.OnUpdate(msg)
	d.m6.OnUpdate(msg)
}

func vmWepProtoID(id string) *proto.WorkloadEndpointID {
	return &proto.WorkloadEndpointID{OrchestratorId: "k8s", WorkloadId: "ns/" + id, EndpointId: "eth0"}
}

func (d *vmFlowExcl) update(id string, v4, v6 []vmAddr, f vmFeat) {
	fields := map[string]any{"id": id, "v4": v4, "v6": v6, "f": f.json()}
	if strings.HasPrefix(id, "h") {
		d.send(&proto.HostEndpointUpdate{
			Id: &proto.HostEndpointID{EndpointId: id},
			Endpoint: &proto.HostEndpoint{
				Name:              "eth-" + id,
				ExpectedIpv4Addrs: vmAddrStrings(v4),
				ExpectedIpv6Addrs: vmAddrStrings(v6),
				QosPolicies:       f.policies(),
			},
		})
		d.log.Emit("hep_update", fields)
		return
	}
	d.send(&proto.WorkloadEndpointUpdate{
		Id: vmWepProtoID(id),
		Endpoint: &proto.WorkloadEndpoint{
			State:       "active",
			Name:        "cali" + id,
			Ipv4Nets:    vmAddrStrings(v4),
			Ipv6Nets:    vmAddrStrings(v6),
			QosPolicies: f.policies(),
			QosControls: f.controls(),
		},
	})
	d.log.Emit("wep_update", fields)
}

func (d *vmFlowExcl) remove(id string) {
	if strings.HasPrefix(id, "h") {
		d.send(&proto.HostEndpointRemove{Id: &proto.HostEndpointID{EndpointId: id}})
		d.log.Emit("hep_remove", map[string]any{"id": id})
		return
	}
	d.send(&proto.WorkloadEndpointRemove{Id: vmWepProtoID(id)})
	d.log.Emit("wep_remove", map[string]any{"id": id})
}

func vmDistinctSorted(ss []string) []string {
	seen := map[string]bool{}
	out := []string{}
	for _, s := range ss {
		if !seen[s] {
			seen[s] = true
			out = append(out, s)
		}
	}
	sort.Strings(out)
	return out
}

func (d *vmFlowExcl) flush(t *testing.T) {
	if err := d.m4.CompleteDeferredWork(); err != nil {
		t.Fatal(err)
	}
	if err := d.m6.CompleteDeferredWork(); err != nil {
		t.Fatal(err)
	}
	d.log.Emit("flush", map[string]any{
		"set4": vmDistinctSorted(d.s4.last[rules.IPSetIDNoFlowOffload]),
		"set6": vmDistinctSorted(d.s6.last[rules.IPSetIDNoFlowOffload]),
	})
}

var vmSym4 = map[string]string{"a": "10.65.0.1", "b": "10.65.0.2", "c": "10.65.1.3"}
var vmSym6 = map[string]string{"x": "dead:beef::1", "y": "dead:beef::2", "z": "fd00::3"}

func vmSymAddrs(syms []string, table map[string]string, hep bool, full int) []vmAddr {
	out := []vmAddr{}
	for _, s := range syms {
		a := vmAddr{IP: table[s], Len: full}
		if hep {
			a.Len = 0 // expected addresses of host endpoints are bare IPs
		}
		out = append(out, a)
	}
	return out
}

func vmFeatOf(v any) vmFeat {
	m, _ := v.(map[string]any)
	return vmFeat{Dscp: vmInt(m["dscp"]), Ibw: vmInt(m["ibw"]), Ebw: vmInt(m["ebw"]), Ipr: vmInt(m["ipr"]),
		Epr: vmInt(m["epr"]), Imc: vmInt(m["imc"]), Emc: vmInt(m["emc"])}
}

func (d *vmFlowExcl) random(t *testing.T, rnd *rand.Rand) {
	d.start()
	nw, nh := 1+rnd.Intn(4), rnd.Intn(3)
	ids := []string{}
	for i := 1; i <= nw; i++ {
		ids = append(ids, fmt.Sprintf("w%d", i))
	}
	for i := 1; i <= nh; i++ {
		ids = append(ids, fmt.Sprintf("h%d", i))
	}
	na := 2 + rnd.Intn(4)
	pick := func(fam int, hep bool) []vmAddr {
		out := []vmAddr{}
		n := rnd.Intn(3)
		for i := 0; i < n; i++ {
			k := 1 + rnd.Intn(na)
			a := vmAddr{IP: fmt.Sprintf("10.65.%d.%d", k/3, k), Len: 32}
			if fam == 6 {
				a = vmAddr{IP: fmt.Sprintf("dead:beef::%x", k), Len: 128}
			}
			if hep {
				a.Len = 0
			}
			out = append(out, a)
		}
		return out
	}
	feat := func(hep bool) vmFeat {
		f := vmFeat{NilControls: rnd.Intn(2) == 0}
		if rnd.Intn(3) == 0 {
			f.Dscp = 1 + rnd.Intn(2)
		}
		if hep {
			return f
		}
		// each QoS control independently, mostly unset
		for _, p := range []*int{&f.Ibw, &f.Ebw, &f.Ipr, &f.Epr, &f.Imc, &f.Emc} {
			if rnd.Intn(5) == 0 {
				*p = 1 + rnd.Intn(1000)
			}
		}
		return f
	}
	steps := 10 + rnd.Intn(40)
	for i := 0; i < steps; i++ {
		id := ids[rnd.Intn(len(ids))]
		hep := strings.HasPrefix(id, "h")
		switch c := rnd.Intn(10); {
		case c < 5:
			d.update(id, pick(4, hep), pick(6, hep), feat(hep))
		case c < 7:
			d.remove(id)
		default:
			d.flush(t)
		}
	}
	d.flush(t)
}

func TestVerifMgrFlowExcl(t *testing.T) {
	lg := vmOpen(t)
	d := &vmFlowExcl{log: lg}
	// a panic of the real manager is logged as a "panic" event, which the trace specification never accepts
	guarded := func(f func()) {
		defer func() {
			if rec := recover(); rec != nil {
				d.log.Emit("panic", map[string]any{"msg": fmt.Sprint(rec)})
			}
		}()
		f()
	}
	for _, b := range vmBehaviours(t) {
		guarded(func() {
			d.start()
			flushed := false
			for _, op := range b {
				flushed = false
				id := vmStr(op["id"])
				hep := strings.HasPrefix(id, "h")
				switch vmStr(op["op"]) {
				case "update":
					d.update(id, vmSymAddrs(vmStrs(op["v4"]), vmSym4, hep, 32), vmSymAddrs(vmStrs(op["v6"]), vmSym6, hep, 128), vmFeatOf(op["f"]))
				case "remove":
					d.remove(id)
				case "flush":
					d.flush(t)
					flushed = true
				case "end":
				default:
					t.Fatalf("unknown op %v", op)
				}
			}
			if !flushed {
				d.flush(t)
			}
		})
	}
	seed := vmSeed()
	for i := 0; i < vmN(); i++ {
		guarded(func() { d.random(t, rand.New(rand.NewSource(seed*1000003+int64(i)))) })
	}
	lg.Close(t)
}
