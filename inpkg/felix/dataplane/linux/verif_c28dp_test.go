//go:build verif

// In-package driver for C28, dataplane half (injected with `go test -overlay`): for every Felix
// setting and IPIP pool mode, a real ipipManager (mock netlink, mock route table) is built from the
// dataplane Config that felix/dataplane/driver.go derives from the real felix/config accessors, is
// fed the host metadata and a remote-workload RouteUpdate of an IPIP pool, and the routes it wrote
// to the main routing table are recorded.  Nothing is judged here.
package intdataplane

import (
	"encoding/json"
	"io"
	"math/rand"
	"net"
	"os"
	"strconv"
	"testing"

	"github.com/onsi/gomega"
	log "github.com/sirupsen/logrus"
	"github.com/vishvananda/netlink"

	felixconfig "github.com/projectcalico/calico/felix/config"
	"github.com/projectcalico/calico/felix/dataplane/linux/dataplanedefs"
	"github.com/projectcalico/calico/felix/netlinkshim/mocknetlink"
	"github.com/projectcalico/calico/felix/proto"
	"github.com/projectcalico/calico/felix/routetable"
	"github.com/projectcalico/calico/felix/rules"
	"github.com/projectcalico/calico/lib/logrusr"
)

type c28dpCase struct {
	Op    string `json:"op"`
	Felix string `json:"felix"`
	Encap string `json:"encap"`
	IPv   int    `json:"ipv"`
}

func TestVerifC28DP(t *testing.T) {
	gomega.RegisterTestingT(t) // the repository's mock netlink asserts with gomega
	log.SetOutput(io.Discard)
	log.SetLevel(log.PanicLevel)
	behPath, outPath := os.Getenv("VERIF_BEH"), os.Getenv("VERIF_OUT")
	if outPath == "" {
		t.Skip("VERIF_OUT not set")
	}
	seed, _ := strconv.ParseInt(os.Getenv("VERIF_SEED"), 10, 64)
	var behs [][]c28dpCase
	if behPath != "" {
		b, err := os.ReadFile(behPath)
		if err != nil {
			t.Fatal(err)
		}
		if err := json.Unmarshal(b, &behs); err != nil {
			t.Fatal(err)
		}
	}
	f, err := os.Create(outPath)
	if err != nil {
		t.Fatal(err)
	}
	defer f.Close()
	tn := 0
	emit := func(ev string, fields map[string]any) {
		m := map[string]any{"ev": ev, "t": tn}
		for k, v := range fields {
			m[k] = v
		}
		b, _ := json.Marshal(m)
		f.Write(append(b, '\n'))
	}
	rnd := rand.New(rand.NewSource(seed))
	seen := map[string]bool{}
	for _, b := range behs {
		for _, c := range b {
			if c.Op != "case" || c.IPv != 4 || (c.Encap != "ipip" && c.Encap != "ipip-cross") || seen[c.Felix+c.Encap] {
				continue
			}
			seen[c.Felix+c.Encap] = true
			tn++
			conf := felixconfig.New()
			src := []felixconfig.Source{felixconfig.DatastoreGlobal, felixconfig.DatastorePerHost, felixconfig.ConfigFile, felixconfig.EnvironmentVariable}[rnd.Intn(4)]
			switch c.Felix {
			case "absent":
			case "unrecognised":
				_, _ = conf.UpdateFrom(map[string]string{"ProgramClusterRoutes": []string{"SomethingFromANewerAPI", "On"}[rnd.Intn(2)]}, src)
			default:
				if _, err := conf.UpdateFrom(map[string]string{"ProgramClusterRoutes": c.Felix}, src); err != nil {
					t.Fatal(err)
				}
			}
			n := 16 + rnd.Intn(200)
			pool, block := "10."+strconv.Itoa(n)+".0.0/16", "10."+strconv.Itoa(n)+".1.0/26"
			emit("reset", map[string]any{"felix": c.Felix, "bgp": "absent", "encap": c.Encap, "ipv": 4, "pool": pool, "block": block, "remote": "node2"})

			rt := &mockRouteTable{currentRoutes: map[string][]routetable.Target{}}
			dp := mocknetlink.New()
			if _, err := dp.NewMockNetlink(); err != nil {
				t.Fatal(err)
			}
			dp.ImmediateLinkUp = true
			eth0 := dp.AddIface(2, "eth0", true, true)
			if err := dp.AddrAdd(eth0, &netlink.Addr{IPNet: &net.IPNet{IP: net.IPv4(172, 0, 0, 2)}}); err != nil {
				t.Fatal(err)
			}
			// the fields felix/dataplane/driver.go copies from the configuration
			dpConfig := Config{
				MaxIPSetSize:                1024,
				Hostname:                    "node1",
				RulesConfig:                 rules.Config{IPIPTunnelAddress: net.ParseIP("192.168.0.1")},
				ProgramIPIPClusterRoutes:    conf.ProgramIPIPClusterRoutes(),
				ProgramNoEncapClusterRoutes: conf.ProgramNoEncapClusterRoutes(),
				DeviceRouteProtocol:         dataplanedefs.DefaultRouteProto,
			}
			mgr := newIPIPManagerWithShims(rt, dataplanedefs.IPIPIfaceName, 4, 1400, dpConfig, logrusr.NewSummarizer("verif"), dp)
			mgr.OnUpdate(&proto.HostMetadataUpdate{Hostname: "node1", Ipv4Addr: "172.0.0.2"})
			mgr.OnUpdate(&proto.HostMetadataUpdate{Hostname: "node2", Ipv4Addr: "172.0.2.2"})
			mgr.routeMgr.OnParentDeviceUpdate("eth0")
			mgr.OnUpdate(&proto.RouteUpdate{Types: proto.RouteType_REMOTE_WORKLOAD, IpPoolType: proto.IPPoolType_IPIP,
				Dst: block, DstNodeName: "node2", DstNodeIp: "172.0.2.2", SameSubnet: c.Encap == "ipip-cross" && rnd.Intn(2) == 0})
			if err := mgr.CompleteDeferredWork(); err != nil {
				t.Fatal(err)
			}
			written := []map[string]any{}
			programmed := false
			for ifc, targets := range rt.currentRoutes {
				for _, tg := range targets {
					written = append(written, map[string]any{"iface": ifc, "cidr": tg.CIDR.String()})
					if tg.CIDR.String() == block {
						programmed = true
					}
				}
			}
			emit("felix_dp", map[string]any{"programmed": programmed, "written": written,
				"ipip": conf.ProgramIPIPClusterRoutes(), "noencap": conf.ProgramNoEncapClusterRoutes()})
			emit("verdict_felix", nil)
		}
	}
}
