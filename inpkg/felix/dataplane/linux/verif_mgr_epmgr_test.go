// /verif driver for C44: drives real endpointManager instances (package mocks for the tables and the
// route table, a recording nftables maps dataplane for the dispatch maps) with local workload
// endpoint updates/removals and logs the complete per-interface dataplane state after every
// CompleteDeferredWork.  Every trace is executed on `reps` fresh managers in lock step so that the
// Go map iteration order inside resolveWorkloadEndpoints varies; the distinct projections seen are
// logged (one when the code is order independent).  The driver computes no expectation.
package intdataplane

import (
	"context"
	"encoding/json"
	"fmt"
	"math/rand"
	"sort"
	"strings"
	"testing"
	"time"

	v3 "github.com/projectcalico/api/pkg/apis/projectcalico/v3"
	"github.com/sirupsen/logrus"

	"github.com/projectcalico/calico/felix/dataplane/common"
	"github.com/projectcalico/calico/felix/environment"
	"github.com/projectcalico/calico/felix/generictables"
	"github.com/projectcalico/calico/felix/ifacemonitor"
	"github.com/projectcalico/calico/felix/ipsets"
	"github.com/projectcalico/calico/felix/linkaddrs"
	"github.com/projectcalico/calico/felix/netlinkshim/mocknetlink"
	"github.com/projectcalico/calico/felix/nftables"
	"github.com/projectcalico/calico/felix/proto"
	"github.com/projectcalico/calico/felix/routetable"
	"github.com/projectcalico/calico/felix/rules"
)

// vmRecMaps records nftables map contents (the dispatch verdict maps).
type vmRecMaps struct {
	maps map[string]map[string][]string
}

func (f *vmRecMaps) AddOrReplaceMap(meta nftables.MapMetadata, members map[string][]string) {
	cp := map[string][]string{}
	for k, v := range members {
		cp[k] = append([]string{}, v...)
	}
	f.maps[meta.Name] = cp
}
func (f *vmRecMaps) RemoveMap(id string)                                             { delete(f.maps, id) }
func (f *vmRecMaps) MapUpdates() *nftables.MapUpdates                                { return nil }
func (f *vmRecMaps) FinishMapUpdates(updates *nftables.MapUpdates)                   {}
func (f *vmRecMaps) LoadDataplaneState(ctx context.Context, mapNames []string) error { return nil }
func (f *vmRecMaps) InvalidateMapsCache()                                            {}

type vmEpInst struct {
	mgr    *endpointManager
	filter *mockTable
	rt     *mockRouteTable
	maps   *vmRecMaps
}

type vmEpCfg struct {
	Mode string // "ipt": iptables renderer, dispatch chains; "nft": nftables renderer, dispatch verdict maps
	Fam  int
	IPVS bool
}

func vmNewEpInst(c vmEpCfg) *vmEpInst {
	rc := rules.Config{
		IPIPEnabled:            true,
		IPSetConfigV4:          ipsets.NewIPVersionConfig(ipsets.IPFamilyV4, "cali", nil, nil),
		IPSetConfigV6:          ipsets.NewIPVersionConfig(ipsets.IPFamilyV6, "cali", nil, nil),
		MarkAccept:             0x8,
		MarkPass:               0x10,
		MarkScratch0:           0x20,
		MarkScratch1:           0x40,
		MarkDrop:               0x80,
		MarkEndpoint:           0xff00,
		MarkNonCaliEndpoint:    0x0100,
		KubeIPVSSupportEnabled: c.IPVS,
		WorkloadIfacePrefixes:  []string{"cali", "tap"},
		VXLANPort:              4789,
		VXLANVNI:               4096,
	}
	nft := c.Mode == "nft"
	inst := &vmEpInst{
		filter: newMockTable("filter"),
		rt:     &mockRouteTable{index: 0, currentRoutes: map[string][]routetable.Target{}},
	}
	var maps nftables.MapsDataplane
	if nft {
		inst.maps = &vmRecMaps{maps: map[string]map[string][]string{}}
		maps = inst.maps
	}
	procSys := &testProcSys{state: map[string]string{}, pathsThatExist: map[string]bool{}}
	nl := mocknetlink.New()
	linkAddrsMgr := linkaddrs.New(
		c.Fam,
		[]string{"cali"},
		&environment.FakeFeatureDetector{Features: environment.Features{}},
		10*time.Second,
		linkaddrs.WithNetlinkHandleShim(nl.NewMockNetlink),
	)
	inst.mgr = newEndpointManagerWithShims(
		&endpointManagerConfig{
			kubeIPVSSupportEnabled: c.IPVS,
			wlInterfacePrefixes:    []string{"cali"},
			bpfEnabled:             false,
			bpfAttachType:          v3.BPFAttachOptionTCX,
			nft:                    nft,
			floatingIPsEnabled:     true,
		},
		newMockTable("raw"),
		newMockTable("mangle"),
		inst.filter,
		rules.NewRenderer(rc, nft),
		inst.rt,
		uint8(c.Fam),
		rules.NewEndpointMarkMapper(rc.MarkEndpoint, rc.MarkNonCaliEndpoint),
		(&statusReportRecorder{currentState: map[any]string{}, extraInfo: map[any]any{}}).endpointStatusUpdateCallback,
		procSys.write,
		procSys.stat,
		"1",
		maps,
		nil, // flowtableHandler
		&testHEPListener{},
		common.NewCallbacks(),
		linkAddrsMgr,
		nil, // arpTable
		nil, // arpMaps
	)
	return inst
}

func vmActionTarget(a generictables.Action) string {
	// jump and goto actions of both renderers name the chain they reference
	if r, ok := a.(interface{ ReferencedChain() string }); ok {
		return r.ReferencedChain()
	}
	return ""
}

// projection: pure read-out of the mocks, sorted.
func (in *vmEpInst) projection() map[string]any {
	chains := []map[string]any{}
	marks := []string{}
	dispFrom, dispTo := []string{}, []string{}
	for name, ch := range in.filter.currentChains {
		switch {
		case strings.HasPrefix(name, rules.WorkloadToEndpointPfx), strings.HasPrefix(name, rules.WorkloadFromEndpointPfx):
			profs := []string{}
			disabled := false
			for _, r := range ch.Rules {
				if t := vmActionTarget(r.Action); strings.HasPrefix(t, string(rules.ProfileInboundPfx)) || strings.HasPrefix(t, string(rules.ProfileOutboundPfx)) {
					profs = append(profs, t)
				}
				for _, c := range r.Comment {
					if c == "Endpoint admin disabled" {
						disabled = true
					}
				}
			}
			chains = append(chains, map[string]any{"chain": name, "disabled": disabled, "profiles": profs})
		case strings.HasPrefix(name, rules.SetEndPointMarkPfx):
			marks = append(marks, name)
		case strings.HasPrefix(name, rules.ChainFromWorkloadDispatch), strings.HasPrefix(name, rules.ChainToWorkloadDispatch):
			for _, r := range ch.Rules {
				t := vmActionTarget(r.Action)
				if strings.HasPrefix(t, rules.WorkloadFromEndpointPfx) {
					dispFrom = append(dispFrom, t)
				} else if strings.HasPrefix(t, rules.WorkloadToEndpointPfx) {
					dispTo = append(dispTo, t)
				}
			}
		}
	}
	sort.Slice(chains, func(i, j int) bool { return chains[i]["chain"].(string) < chains[j]["chain"].(string) })
	sort.Strings(marks)
	mapKeys := []string{}
	if in.maps != nil {
		// nftables mode: the dispatch entries live in the verdict maps
		for _, mm := range []struct {
			name string
			dst  *[]string
		}{{rules.NftablesFromWorkloadDispatchMap, &dispFrom}, {rules.NftablesToWorkloadDispatchMap, &dispTo}} {
			for iface, verdict := range in.maps.maps[mm.name] {
				mapKeys = append(mapKeys, mm.name+":"+iface)
				for _, v := range verdict {
					*mm.dst = append(*mm.dst, strings.TrimPrefix(v, "goto "))
				}
			}
		}
	}
	sort.Strings(mapKeys)
	routes := []map[string]any{}
	for iface, ts := range in.rt.currentRoutesByClass[routetable.RouteClassLocalWorkload] {
		if len(ts) == 0 {
			continue
		}
		cidrs := []string{}
		for _, t := range ts {
			cidrs = append(cidrs, t.CIDR.String())
		}
		sort.Strings(cidrs)
		routes = append(routes, map[string]any{"iface": iface, "cidrs": cidrs})
	}
	sort.Slice(routes, func(i, j int) bool { return routes[i]["iface"].(string) < routes[j]["iface"].(string) })
	// any other route class on this table would be unexpected: report it rather than hide it
	other := []string{}
	for class, m := range in.rt.currentRoutesByClass {
		if class == routetable.RouteClassLocalWorkload {
			continue
		}
		for iface, ts := range m {
			if len(ts) > 0 {
				other = append(other, fmt.Sprintf("%v:%s", class, iface))
			}
		}
	}
	sort.Strings(other)
	return map[string]any{
		"chains": chains, "marks": marks, "routes": routes, "other_routes": other,
		"disp_from": vmSorted(dispFrom), "disp_to": vmSorted(dispTo), "map_keys": mapKeys,
	}
}

type vmEp struct {
	log   *vmLog
	insts []*vmEpInst
	cfg   vmEpCfg
}

func (d *vmEp) start(c vmEpCfg, reps int) {
	d.cfg = c
	d.insts = nil
	for i := 0; i < reps; i++ {
		d.insts = append(d.insts, vmNewEpInst(c))
	}
	d.log.Reset(map[string]any{"mode": c.Mode, "fam": c.Fam, "ipvs": c.IPVS, "reps": reps})
}

type vmEpSpec struct {
	Name     string
	Up       bool
	Nets4    []string
	Nets6    []string
	Profiles []string
}

func vmEpID(id []int) *proto.WorkloadEndpointID {
	return &proto.WorkloadEndpointID{
		OrchestratorId: fmt.Sprintf("o%d", id[0]),
		WorkloadId:     fmt.Sprintf("w%d", id[1]),
		EndpointId:     fmt.Sprintf("e%d", id[2]),
	}
}

func (d *vmEp) update(id []int, s vmEpSpec) {
	state := "active"
	if !s.Up {
		state = "inactive"
	}
	for _, in := range d.insts {
		// a fresh message per manager: the manager keeps the pointer
		in.mgr.OnUpdate(&proto.WorkloadEndpointUpdate{
			Id: vmEpID(id),
			Endpoint: &proto.WorkloadEndpoint{
				State:      state,
				Name:       s.Name,
				Mac:        "01:02:03:04:05:06",
				ProfileIds: append([]string{}, s.Profiles...),
				Ipv4Nets:   append([]string{}, s.Nets4...),
				Ipv6Nets:   append([]string{}, s.Nets6...),
			},
		})
	}
	d.log.Emit("update", map[string]any{"id": id, "name": s.Name, "up": s.Up, "nets4": vmSorted(s.Nets4), "nets6": vmSorted(s.Nets6), "profiles": append([]string{}, s.Profiles...)})
}

func (d *vmEp) remove(id []int) {
	for _, in := range d.insts {
		in.mgr.OnUpdate(&proto.WorkloadEndpointRemove{Id: vmEpID(id)})
	}
	d.log.Emit("remove", map[string]any{"id": id})
}

// interface oper-state noise: must not influence chains, routes or dispatch entries
func (d *vmEp) ifaceState(name string, up bool) {
	st := ifacemonitor.StateDown
	if up {
		st = ifacemonitor.StateUp
	}
	for _, in := range d.insts {
		in.mgr.OnUpdate(&ifaceStateUpdate{Name: name, State: st})
	}
	d.log.Emit("iface", map[string]any{"name": name, "up": up})
}

func (d *vmEp) flush(t *testing.T) {
	seen := map[string]bool{}
	keys := []string{}
	for _, in := range d.insts {
		if err := in.mgr.ResolveUpdateBatch(); err != nil {
			t.Fatal(err)
		}
		if err := in.mgr.CompleteDeferredWork(); err != nil {
			t.Fatal(err)
		}
		b, err := json.Marshal(in.projection())
		if err != nil {
			t.Fatal(err)
		}
		if !seen[string(b)] {
			seen[string(b)] = true
			keys = append(keys, string(b))
		}
	}
	sort.Strings(keys)
	dps := []json.RawMessage{}
	for _, k := range keys {
		dps = append(dps, json.RawMessage(k))
	}
	d.log.Emit("flush", map[string]any{"dps": dps})
}

func vmIDInts(v any) []int {
	out := []int{}
	if a, ok := v.([]any); ok {
		for _, x := range a {
			out = append(out, vmInt(x))
		}
	}
	return out
}

// endpoint content for TLC-generated operations: addresses and profile identify the endpoint, a
// second address identifies the version of the update (stale data is visible)
func vmGenSpec(id []int, name string, up bool, version int) vmEpSpec {
	return vmEpSpec{
		Name:     name,
		Up:       up,
		Nets4:    []string{fmt.Sprintf("10.%d.%d.%d/32", id[0], id[1], id[2]), fmt.Sprintf("10.200.0.%d/32", version)},
		Nets6:    []string{fmt.Sprintf("fd00::%d:%d:%d/128", id[0], id[1], id[2]), fmt.Sprintf("fd00:200::%d/128", version)},
		Profiles: []string{fmt.Sprintf("prof-%d%d%d", id[0], id[1], id[2])},
	}
}

func (d *vmEp) random(t *testing.T, rnd *rand.Rand, reps int) {
	c := vmEpCfg{Mode: []string{"ipt", "nft"}[rnd.Intn(2)], Fam: []int{4, 6}[rnd.Intn(2)], IPVS: rnd.Intn(2) == 0}
	d.start(c, reps)
	nIDs, nNames := 2+rnd.Intn(4), 1+rnd.Intn(3)
	ids := [][]int{}
	for len(ids) < nIDs {
		id := []int{1 + rnd.Intn(2), 1 + rnd.Intn(3), 1 + rnd.Intn(2)}
		dup := false
		for _, x := range ids {
			if x[0] == id[0] && x[1] == id[1] && x[2] == id[2] {
				dup = true
			}
		}
		if !dup {
			ids = append(ids, id)
		}
	}
	names := []string{"cali0", "cali1", "caliabc"}[:nNames]
	pFlush := []float64{0.15, 0.4, 0.7}[rnd.Intn(3)]
	steps := 8 + rnd.Intn(30)
	for i := 0; i < steps; i++ {
		id := ids[rnd.Intn(len(ids))]
		switch c := rnd.Intn(10); {
		case c < 6:
			s := vmGenSpec(id, names[rnd.Intn(len(names))], rnd.Intn(4) > 0, i+1)
			switch rnd.Intn(4) {
			case 0:
				s.Profiles = append(s.Profiles, "prof-shared")
			case 1:
				s.Profiles = nil
				s.Nets4 = s.Nets4[:1]
				s.Nets6 = nil
			}
			d.update(id, s)
		case c < 8:
			d.remove(id)
		default:
			d.ifaceState(names[rnd.Intn(len(names))], rnd.Intn(2) == 0)
		}
		if rnd.Float64() < pFlush {
			d.flush(t)
		}
	}
	d.flush(t)
}

func TestVerifMgrEpMgr(t *testing.T) {
	logrus.SetLevel(logrus.PanicLevel)
	lg := vmOpen(t)
	d := &vmEp{log: lg}
	reps := vmEnvInt("VERIF_REPS", 8)
	cfgs := []vmEpCfg{{"ipt", 4, true}, {"nft", 4, false}, {"ipt", 6, false}, {"nft", 6, true}}
	only := vmOnly(t)
	for bi, b := range vmBehaviours(t) {
		if lg.Skip(only) {
			continue
		}
		// batches of several operations exist iff some operation is not directly followed by a flush
		batched := false
		for i, op := range b {
			if o := vmStr(op["op"]); (o == "update" || o == "remove") && i+1 < len(b) {
				if n := vmStr(b[i+1]["op"]); n == "update" || n == "remove" {
					batched = true
				}
			}
		}
		r := 1
		if batched {
			r = reps
		}
		func() {
			// a panic of the real manager is an observation the specification never accepts
			defer func() {
				if rec := recover(); rec != nil {
					d.log.Emit("panic", map[string]any{"msg": fmt.Sprint(rec)})
				}
			}()
			d.start(cfgs[bi%len(cfgs)], r)
			flushed := true
			for i, op := range b {
				switch vmStr(op["op"]) {
				case "update":
					id := vmIDInts(op["id"])
					d.update(id, vmGenSpec(id, vmStr(op["name"]), vmBool(op["up"]), i+1))
					flushed = false
				case "remove":
					d.remove(vmIDInts(op["id"]))
					flushed = false
				case "flush":
					d.flush(t)
					flushed = true
				case "end":
				default:
					t.Fatalf("unknown op %v", op)
				}
			}
			if !flushed {
				d.flush(t)
			}
		}()
	}
	seed := vmSeed()
	for i := 0; i < vmN(); i++ {
		if lg.Skip(only) {
			continue
		}
		func() {
			defer func() {
				if rec := recover(); rec != nil {
					d.log.Emit("panic", map[string]any{"msg": fmt.Sprint(rec)})
				}
			}()
			d.random(t, rand.New(rand.NewSource(seed*1000003+int64(i))), reps)
		}()
	}
	lg.Close(t)
}
