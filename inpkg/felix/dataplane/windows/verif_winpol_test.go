// C30 in-package driver (injected into felix/dataplane/windows with `go test -overlay`).
//
// Input  VERIF_CASES: ndjson written by /verif/harness/cmd/winpol, one case per line:
//
//	{"case":n,"cls":s,"msgs":[{"k":"ipset|policy|profile|wep|apply","pb":<protojson>}],"hostAddrs":[s],
//	 "staticFile":s,"ref":{...,"eps":[{"tiers","profiles"}],"polByMsg":{"m<i>":{"ingress":[..],"egress":[..]}}}}
//
// A case may hold several workload endpoints (ref.eps), each followed by an "apply" marker: they are programmed
// one after the other on the SAME dataplane instance (shared PolicySets cache).
//
// For every case a fresh Windows dataplane driver is built with the real constructor
// (NewWinDataplaneDriver: IP-set cache + IPSetsManager, PolicySets, policyManager, endpointManager), the
// messages are delivered to every manager exactly as loopUpdatingDataplane does, and apply() runs the
// managers' deferred work.  Only two things are substituted: the HNS endpoint listing (one attached local
// endpoint, so that the workload resolves) and a recording wrapper around the PolicySetsDataplane that
// logs AddOrReplacePolicySet / GetPolicySetRules calls and results.  The rules the endpoint manager
// applied (activeWlACLPolicies) and every GetPolicySetRules result are exported field by field to the
// HNS rule IR of /verif/specs/lib/HNS.tla.  Nothing is evaluated or expected here.
//
// Output VERIF_OUT: one {"t":id,"ev":"case",...} line per programmed endpoint (format: /verif/specs/winpol/WinSem.tla;
// "src" = the input case), plus re-read lines for multi-endpoint cases (see verifRunCase).
package windataplane

import (
	"bufio"
	"encoding/json"
	"fmt"
	"net"
	"os"
	"path/filepath"
	"strconv"
	"strings"
	"testing"

	log "github.com/sirupsen/logrus"
	"google.golang.org/protobuf/encoding/protojson"
	googleproto "google.golang.org/protobuf/proto"

	"github.com/projectcalico/calico/felix/dataplane/windows/hns"
	"github.com/projectcalico/calico/felix/dataplane/windows/policysets"
	"github.com/projectcalico/calico/felix/proto"
	"github.com/projectcalico/calico/felix/types"
)

type verifM = map[string]any

type verifFakeHNS struct{}

func (verifFakeHNS) GetHNSSupportedFeatures() hns.HNSSupportedFeatures {
	return hns.API{}.GetHNSSupportedFeatures()
}

func (verifFakeHNS) HNSListEndpointRequest() ([]hns.HNSEndpoint, error) {
	var eps []hns.HNSEndpoint
	for k := 2; k < 10; k++ {
		eps = append(eps, hns.HNSEndpoint{
			Id: fmt.Sprintf("verif-ep%d", k), Name: fmt.Sprintf("verif-ep%d", k), VirtualNetworkName: "Calico",
			IPAddress: net.ParseIP(fmt.Sprintf("10.65.0.%d", k)), State: hns.Attached,
		})
	}
	return eps, nil
}

type verifCall struct {
	ids   []string
	in    bool
	drop  bool
	rules []hns.ACLPolicy
}

// verifRecorder forwards to the real PolicySets and logs the calls.
type verifRecorder struct {
	policysets.PolicySetsDataplane
	added []string
	calls []verifCall
}

func (r *verifRecorder) AddOrReplacePolicySet(setId string, policy any) {
	r.added = append(r.added, setId)
	r.PolicySetsDataplane.AddOrReplacePolicySet(setId, policy)
}

func (r *verifRecorder) GetPolicySetRules(setIds []string, isInbound, endOfTierDrop bool) []*hns.ACLPolicy {
	out := r.PolicySetsDataplane.GetPolicySetRules(setIds, isInbound, endOfTierDrop)
	c := verifCall{ids: append([]string{}, setIds...), in: isInbound, drop: endOfTierDrop}
	for _, p := range out {
		c.rules = append(c.rules, *p) // copy now: flattenTiers later rewrites actions in place
	}
	r.calls = append(r.calls, c)
	return out
}

func verifCIDRs(t *testing.T, s string) []verifM {
	out := []verifM{}
	if s == "" {
		return out
	}
	for _, item := range strings.Split(s, ",") {
		ipStr, n := item, -1
		if i := strings.IndexByte(item, '/'); i >= 0 {
			ipStr = item[:i]
			v, err := strconv.Atoi(item[i+1:])
			if err != nil {
				t.Fatalf("HARNESS: unparseable address list element %q in %q", item, s)
			}
			n = v
		}
		ip := net.ParseIP(ipStr)
		if ip == nil {
			t.Fatalf("HARNESS: unparseable address list element %q in %q", item, s)
		}
		b := []byte(ip.To4())
		if b == nil {
			b = []byte(ip.To16())
		}
		if n < 0 {
			n = 8 * len(b)
		}
		if n > 8*len(b) {
			t.Fatalf("HARNESS: bad prefix length in %q", item)
		}
		oct := make([]int, len(b))
		for i, x := range b {
			oct[i] = int(x)
		}
		out = append(out, verifM{"a": oct, "n": n})
	}
	return out
}

func verifPorts(t *testing.T, s string) [][]int {
	out := [][]int{}
	if s == "" {
		return out
	}
	for _, item := range strings.Split(s, ",") {
		lo, hi := item, item
		if i := strings.IndexByte(item, '-'); i >= 0 {
			lo, hi = item[:i], item[i+1:]
		}
		a, err1 := strconv.Atoi(lo)
		b, err2 := strconv.Atoi(hi)
		if err1 != nil || err2 != nil {
			t.Fatalf("HARNESS: unparseable port list element %q in %q", item, s)
		}
		out = append(out, []int{a, b})
	}
	return out
}

func verifIR(t *testing.T, p *hns.ACLPolicy) verifM {
	if p.Type != hns.ACL || p.Protocols != "" || p.LocalPort != 0 || p.RemotePort != 0 || p.InternalPort != 0 || p.ServiceName != "" {
		t.Fatalf("HARNESS: ACLPolicy uses a field the IR does not model: %+v", *p)
	}
	return verifM{
		"prio": int(p.Priority), "action": string(p.Action), "dir": string(p.Direction), "ruleType": string(p.RuleType),
		"proto":      int(p.Protocol),
		"localAddrs": verifCIDRs(t, p.LocalAddresses), "remoteAddrs": verifCIDRs(t, p.RemoteAddresses),
		"localPorts": verifPorts(t, p.LocalPorts), "remotePorts": verifPorts(t, p.RemotePorts),
		"id": p.Id,
	}
}

func verifIRs(t *testing.T, ps []*hns.ACLPolicy) []verifM {
	out := []verifM{}
	for _, p := range ps {
		out = append(out, verifIR(t, p))
	}
	return out
}

type verifMsg struct {
	K  string          `json:"k"`
	Pb json.RawMessage `json:"pb"`
}

type verifCase struct {
	Case       int                        `json:"case"`
	Cls        string                     `json:"cls"`
	Msgs       []verifMsg                 `json:"msgs"`
	HostAddrs  []string                   `json:"hostAddrs"`
	StaticFile string                     `json:"staticFile"`
	Ref        map[string]json.RawMessage `json:"ref"`
}

func verifDecode(t *testing.T, m verifMsg) googleproto.Message {
	var msg googleproto.Message
	switch m.K {
	case "ipset":
		msg = &proto.IPSetUpdate{}
	case "policy":
		msg = &proto.ActivePolicyUpdate{}
	case "profile":
		msg = &proto.ActiveProfileUpdate{}
	case "wep":
		msg = &proto.WorkloadEndpointUpdate{}
	default:
		t.Fatalf("HARNESS: unknown message kind %q", m.K)
	}
	if err := protojson.Unmarshal(m.Pb, msg); err != nil {
		t.Fatalf("HARNESS: bad protojson for %s: %v", m.K, err)
	}
	return msg
}

// verifRunCase runs one case (one dataplane instance) and returns its output lines: one per programmed
// endpoint, taken right after the apply() that programmed it, plus - when the case has several endpoints -
// one more per earlier endpoint with the endpoint manager's record of the applied rules (activeWlACLPolicies)
// read again after ALL endpoints were programmed ("reread": true, no calls).
func verifRunCase(t *testing.T, c *verifCase) []verifM {
	// static-rules.json is read from the directory of the executable by the real constructor
	staticPath := filepath.Join(filepath.Dir(os.Args[0]), policysets.StaticFileName)
	_ = os.Remove(staticPath)
	if c.StaticFile != "" {
		if err := os.WriteFile(staticPath, []byte(c.StaticFile), 0o644); err != nil {
			t.Fatalf("HARNESS: %v", err)
		}
		defer os.Remove(staticPath)
	}
	dp := NewWinDataplaneDriver(hns.API{}, Config{})
	rec := &verifRecorder{PolicySetsDataplane: dp.policySets}
	nPolMgr := 0
	for _, mgr := range dp.allManagers {
		if pm, ok := mgr.(*policyManager); ok {
			pm.policysetsDataplane = rec
			nPolMgr++
		}
	}
	if nPolMgr != 1 {
		t.Fatalf("HARNESS: expected one policyManager, found %d", nPolMgr)
	}
	dp.endpointMgr.policysetsDataplane = rec
	dp.endpointMgr.hns = verifFakeHNS{}
	// the static rules exactly as the real reader loaded them (before any priority rewriting)
	static := []verifM{}
	for _, dir := range []bool{true, false} {
		for _, r := range dp.policySets.GetPolicySetRules(nil, dir, true) {
			if strings.HasPrefix(r.Id, "verif-") { // the provider prefix of generated static files
				static = append(static, verifIR(t, r))
			}
		}
	}

	polsets := verifM{"_none": verifM{"ingress": []any{}, "egress": []any{}}}
	var polByMsg map[string]json.RawMessage
	if raw, ok := c.Ref["polByMsg"]; ok {
		if err := json.Unmarshal(raw, &polByMsg); err != nil {
			t.Fatalf("HARNESS: %v", err)
		}
	}
	var eps []map[string]json.RawMessage
	if err := json.Unmarshal(c.Ref["eps"], &eps); err != nil {
		t.Fatalf("HARNESS: case %d: bad ref.eps: %v", c.Case, err)
	}
	line := func(k int, reread bool) verifM {
		n := k + 1
		if reread {
			n += len(eps)
		}
		id := c.Case
		if len(eps) > 1 {
			id = c.Case*100 + n
		}
		out := verifM{"ev": "case", "t": id, "case": id, "src": c.Case, "ep": k, "reread": reread, "cls": c.Cls, "panic": "",
			"static": static, "polsets": polsets, "acl": []verifM{}, "calls": []verifM{}}
		for key, v := range c.Ref {
			if key != "polByMsg" && key != "eps" {
				out[key] = v
			}
		}
		for key, v := range eps[k] {
			out[key] = v
		}
		return out
	}
	applied := func(id *proto.WorkloadEndpointID) []verifM {
		rules, ok := dp.endpointMgr.activeWlACLPolicies[types.ProtoToWorkloadEndpointID(id)]
		if !ok {
			t.Fatalf("HARNESS: case %d: the endpoint manager applied no rules (endpoint not resolved?)", c.Case)
		}
		return verifIRs(t, rules)
	}
	callsSince := func(from int) []verifM {
		calls := []verifM{}
		for _, cl := range rec.calls[from:] {
			dir := "Out"
			if cl.in {
				dir = "In"
			}
			rs := []verifM{}
			for i := range cl.rules {
				rs = append(rs, verifIR(t, &cl.rules[i]))
			}
			ids := cl.ids
			if ids == nil {
				ids = []string{}
			}
			calls = append(calls, verifM{"ids": ids, "dir": dir, "drop": cl.drop, "rules": rs})
		}
		return calls
	}

	var lines []verifM
	var wepIDs []*proto.WorkloadEndpointID
	hostSent := false
	panicText := ""
	func() {
		defer func() {
			if r := recover(); r != nil {
				panicText = strings.SplitN(fmt.Sprint(r), "\n", 2)[0]
				if len(panicText) > 200 {
					panicText = panicText[:200]
				}
			}
		}()
		for i, m := range c.Msgs {
			if m.K == "apply" {
				if len(wepIDs) != len(lines)+1 || len(wepIDs) > len(eps) {
					t.Fatalf("HARNESS: case %d: every apply marker must follow exactly one new endpoint", c.Case)
				}
				if !hostSent && c.HostAddrs != nil {
					dp.endpointMgr.OnHostAddrsUpdate(append([]string{}, c.HostAddrs...)) // = the ifaceAddrUpdates branch of the main loop
					hostSent = true
				}
				from := len(rec.calls)
				dp.apply()
				k := len(lines)
				ln := line(k, false)
				ln["acl"] = applied(wepIDs[k])
				ln["calls"] = callsSince(from)
				lines = append(lines, ln)
				continue
			}
			msg := verifDecode(t, m)
			if w, ok := msg.(*proto.WorkloadEndpointUpdate); ok {
				wepIDs = append(wepIDs, w.Id)
			}
			before := len(rec.added)
			for _, mgr := range dp.allManagers { // = processMsgFromCalcGraph
				mgr.OnUpdate(msg)
			}
			if raw, ok := polByMsg[fmt.Sprintf("m%d", i)]; ok {
				for _, id := range rec.added[before:] {
					polsets[id] = raw
				}
			}
		}
	}()
	if panicText != "" {
		ln := line(len(lines), false)
		ln["panic"] = panicText
		return append(lines, ln)
	}
	if len(lines) != len(eps) {
		t.Fatalf("HARNESS: case %d programmed %d of %d endpoints", c.Case, len(lines), len(eps))
	}
	for k := 0; k+1 < len(eps); k++ {
		ln := line(k, true)
		ln["acl"] = applied(wepIDs[k])
		lines = append(lines, ln)
	}
	return lines
}

func TestVerifWinpol(t *testing.T) {
	in, outPath := os.Getenv("VERIF_CASES"), os.Getenv("VERIF_OUT")
	if in == "" || outPath == "" {
		t.Skip("VERIF_CASES / VERIF_OUT not set")
	}
	log.SetLevel(log.PanicLevel)
	f, err := os.Open(in)
	if err != nil {
		t.Fatal(err)
	}
	defer f.Close()
	of, err := os.Create(outPath)
	if err != nil {
		t.Fatal(err)
	}
	w := bufio.NewWriterSize(of, 1<<20)
	sc := bufio.NewScanner(f)
	sc.Buffer(make([]byte, 1<<20), 1<<28)
	n := 0
	for sc.Scan() {
		if len(sc.Bytes()) == 0 {
			continue
		}
		var c verifCase
		if err := json.Unmarshal(sc.Bytes(), &c); err != nil {
			t.Fatalf("HARNESS: bad case line: %v", err)
		}
		for _, ln := range verifRunCase(t, &c) {
			b, err := json.Marshal(ln)
			if err != nil {
				t.Fatal(err)
			}
			w.Write(b)
			w.WriteByte('\n')
		}
		n++
	}
	if err := sc.Err(); err != nil {
		t.Fatal(err)
	}
	if err := w.Flush(); err != nil {
		t.Fatal(err)
	}
	of.Close()
	fmt.Printf("VERIF winpol: %d cases\n", n)
}
